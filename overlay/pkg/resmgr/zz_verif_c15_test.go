//go:build verif

package resmgr

// C15 harness (built with -race): NRI requests, re-applied configuration and Synchronize are
// issued concurrently from several goroutines against one real resource manager; the race
// detector watches every access to the cache and the policy. Afterwards the state is drained
// sequentially and the reference lifecycle must be served (no lost lock, no deadlock: every
// request has a time bound).

import (
	"context"
	"fmt"
	"math/rand"
	"os"
	"path/filepath"
	"strconv"
	"strings"
	"sync"
	"testing"
	"time"

	"github.com/containerd/nri/pkg/api"

	cfgapi "github.com/containers/nri-plugins/pkg/apis/config/v1alpha1"
	"github.com/containers/nri-plugins/pkg/verifgen"
)

func TestVerifC15Concurrent(t *testing.T) {
	w, done := vOpen(t)
	defer done()
	seed, _ := strconv.ParseInt(os.Getenv("VERIF_SEED"), 10, 64)
	rng := rand.New(rand.NewSource(seed + 1500))
	n := 6
	if os.Getenv("VERIF_TIER") == "thorough" {
		n = 60
	}
	if v, err := strconv.Atoi(os.Getenv("VERIF_HISTORIES")); err == nil {
		n = v
	}
	ctx := context.Background()
	for i := 0; i < n; i++ {
		opts := verifgen.DefaultOpts()
		opts.AllowHybrid = false
		m := verifgen.Gen(rng, opts)
		pol := []string{"topology-aware", "balloons"}[i%2]
		var h *vHarness
		var err error
		root := t.TempDir()
		var desc string
		if pol == "balloons" {
			cfg, d := vBalloonsCfg(rng, m)
			desc = d
			h, err = vNewHarness(t, m, root, filepath.Join(root, "state"), pol, cfg)
		} else {
			cfg, d := vTACfg(rng, m)
			desc = d
			h, err = vNewHarness(t, m, root, filepath.Join(root, "state"), pol, cfg)
		}
		fmt.Fprintf(w, "H %d %s %s\n", i, pol, desc)
		if err != nil {
			fmt.Fprintf(w, "HERR %s\n", vOneWord(err.Error()))
			continue
		}
		// sequential prologue: is the reference lifecycle of the epilogue satisfiable on this machine and configuration at all?
		// (on very small machines the default balloon cannot get a CPU even in the pristine state; the epilogue is only
		// required to be served where the same lifecycle was served before the concurrent phase)
		probeOK := true
		{
			pp := &vPod{id: "probe", name: "probe", ns: "default", qos: "BestEffort", ann: map[string]string{}}
			pc := &vCtr{id: "probec", name: "ctr0", pod: pp}
			for _, fn := range []func() error{
				func() error { return h.m.nri.RunPodSandbox(ctx, pp.nri()) },
				func() error { _, _, err := h.m.nri.CreateContainer(ctx, pp.nri(), pc.nri()); return err },
				func() error { _, err := h.m.nri.StopContainer(ctx, pp.nri(), pc.nri()); return err },
				func() error { return h.m.nri.RemoveContainer(ctx, pp.nri(), pc.nri()) },
				func() error { return h.m.nri.StopPodSandbox(ctx, pp.nri()) },
				func() error { return h.m.nri.RemovePodSandbox(ctx, pp.nri()) },
			} {
				if r := vSafeStack(func() string { return vErr(fn()) }); !strings.HasPrefix(r, "ok") {
					probeOK = false
				}
			}
		}
		workers := 4 + rng.Intn(4)
		// a configuration the policy must reject, derived before the concurrent phase (no unlocked reads of m.cfg by the harness
		// while requests run); worker 2 delivers it repeatedly, concurrently with worker 0's accepted re-application
		var badCfg cfgapi.ResmgrConfig
		for k := 0; k < 40 && badCfg == nil; k++ {
			if nc, kind, _ := vMutateCfg(rng, h.m.cfg, m); strings.HasPrefix(kind, "bad:") {
				badCfg = nc
			}
		}
		var wg sync.WaitGroup
		var mu sync.Mutex
		results := []string{}
		timedOut := false
		// two dedicated configuration streams next to the request workers: the configuration in force re-applied (accepted) and a
		// configuration the policy rejects (applied, refused, reverted), so that accepted and rejected updates meet each other and
		// the requests at the lock many times per history
		curCfg := h.m.cfg
		for _, cs := range []struct {
			name string
			cfg  cfgapi.ResmgrConfig
		}{{"cfg-accepted", curCfg}, {"cfg-rejected", badCfg}} {
			if cs.cfg == nil {
				continue
			}
			cs := cs
			wg.Add(1)
			go func() {
				defer wg.Done()
				for k := 0; k < 40; k++ {
					r := vSafeStack(func() string { return vErr(h.m.reconfigure(cs.cfg)) })
					if k%10 == 0 {
						mu.Lock()
						results = append(results, cs.name+" reconfig "+r)
						mu.Unlock()
					}
				}
			}()
		}
		for wk := 0; wk < workers; wk++ {
			wg.Add(1)
			wrng := rand.New(rand.NewSource(rng.Int63()))
			wk := wk
			go func() {
				defer wg.Done()
				for j := 0; j < 12; j++ {
					// each worker owns its pods and containers: per-object request order is what a runtime guarantees
					p := vGenPod(wrng, 0)
					p.id, p.name = fmt.Sprintf("w%dp%d", wk, j), fmt.Sprintf("w%dpod%d", wk, j)
					c := vGenCtr(wrng, p, 0, len(m.Online()))
					c.id, c.name = fmt.Sprintf("w%dc%d", wk, j), "ctr0"
					steps := []struct {
						n  string
						fn func() error
					}{
						{"runpod", func() error { return h.m.nri.RunPodSandbox(ctx, p.nri()) }},
						{"create", func() error { _, _, err := h.m.nri.CreateContainer(ctx, p.nri(), c.nri()); return err }},
						{"start", func() error { return h.m.nri.StartContainer(ctx, p.nri(), c.nri()) }},
						{"update", func() error { nc := c.nri(); _, err := h.m.nri.UpdateContainer(ctx, p.nri(), nc, nc.Linux.Resources); return err }},
						{"stop", func() error { _, err := h.m.nri.StopContainer(ctx, p.nri(), c.nri()); return err }},
						{"remove", func() error { return h.m.nri.RemoveContainer(ctx, p.nri(), c.nri()) }},
						{"stoppod", func() error { return h.m.nri.StopPodSandbox(ctx, p.nri()) }},
						{"removepod", func() error { return h.m.nri.RemovePodSandbox(ctx, p.nri()) }},
					}
					for _, s := range steps {
						if wrng.Intn(10) == 0 {
							steps = append(steps, struct {
								n  string
								fn func() error
							}{})
							steps = steps[:len(steps)-1]
						}
						ch := make(chan string, 1)
						go func() { ch <- vSafeStack(func() string { return vErr(s.fn()) }) }()
						var r string
						select {
						case r = <-ch:
						case <-time.After(60 * time.Second):
							r = "timeout"
							mu.Lock()
							timedOut = true
							mu.Unlock()
						}
						mu.Lock()
						results = append(results, fmt.Sprintf("w%d %s %s", wk, s.n, r))
						mu.Unlock()
						if r == "timeout" {
							return
						}
					}
					if wk == 0 && j%3 == 1 {
						r := vSafeStack(func() string { return vErr(h.m.reconfigure(curCfg)) }) // (curCfg: captured before the concurrent phase - the harness itself must not read m.cfg unlocked)
						mu.Lock()
						results = append(results, "w0 reconfig "+r)
						mu.Unlock()
					}
					if wk == 2 && j%3 == 0 && badCfg != nil {
						r := vSafeStack(func() string { return vErr(h.m.reconfigure(badCfg)) })
						mu.Lock()
						results = append(results, "w2 reconfig-rejected "+r)
						mu.Unlock()
					}
					if wk == 1 && j%4 == 2 {
						// a re-synchronization listing only this worker's (currently no) containers would purge the others':
						// list everything the cache knows, as the runtime would
						var ps []*api.PodSandbox
						var cs []*api.Container
						r := vSafeStack(func() string { _, err := h.m.nri.Synchronize(ctx, ps, cs); return vErr(err) })
						_ = r
					}
				}
			}()
		}
		wg.Wait()
		for _, r := range results {
			fmt.Fprintf(w, "C %s\n", r)
		}
		if timedOut {
			fmt.Fprintf(w, "X timeout\n")
			continue
		}
		// sequential epilogue: the reference lifecycle is served and nothing is left behind
		fp := &vPod{id: "final", name: "final", ns: "default", qos: "BestEffort", ann: map[string]string{}}
		fc := &vCtr{id: "finalc", name: "ctr0", pod: fp}
		for _, s := range []struct {
			n  string
			fn func() error
		}{
			{"final-runpod", func() error { return h.m.nri.RunPodSandbox(ctx, fp.nri()) }},
			{"final-create", func() error { _, _, err := h.m.nri.CreateContainer(ctx, fp.nri(), fc.nri()); return err }},
			{"final-stop", func() error { _, err := h.m.nri.StopContainer(ctx, fp.nri(), fc.nri()); return err }},
			{"final-remove", func() error { return h.m.nri.RemoveContainer(ctx, fp.nri(), fc.nri()) }},
			{"final-stoppod", func() error { return h.m.nri.StopPodSandbox(ctx, fp.nri()) }},
			{"final-removepod", func() error { return h.m.nri.RemovePodSandbox(ctx, fp.nri()) }},
		} {
			name := s.n
			if !probeOK {
				name = "unprobed-" + name // not judged: the same lifecycle was refused in the pristine state
			}
			fmt.Fprintf(w, "E %s\nR %s\n", name, vSafeStack(func() string { return vErr(s.fn()) }))
		}
		fmt.Fprintf(w, "V %s\n", h.vCacheView())
		h.vSnapshot(w)
		w.Flush()
	}
}
