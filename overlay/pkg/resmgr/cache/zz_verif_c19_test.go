//go:build verif

package cache

// C19 correspondence harness: real Expression.Validate/Evaluate/KeyValue/ResolveRef on real
// cache containers and pods (so the real EvalKey implementations are exercised), plus the
// affinity weight handling of parseFull.

import (
	"bufio"
	"encoding/hex"
	"fmt"
	"math/rand"
	"os"
	"path"
	"path/filepath"
	"sort"
	"strings"
	"testing"

	nri "github.com/containerd/nri/pkg/api"
	v1 "k8s.io/api/core/v1"

	resmgr "github.com/containers/nri-plugins/pkg/apis/resmgr/v1alpha1"
)

func vHex(s string) string {
	if s == "" {
		return "-"
	}
	return hex.EncodeToString([]byte(s))
}

func vHexMap(m map[string]string) string {
	if len(m) == 0 {
		return "-"
	}
	ks := make([]string, 0, len(m))
	for k := range m {
		ks = append(ks, k)
	}
	sort.Strings(ks)
	parts := []string{}
	for _, k := range ks {
		parts = append(parts, vHex(k)+"="+vHex(m[k]))
	}
	return strings.Join(parts, ";")
}

func vBool(b bool) string {
	if b {
		return "1"
	}
	return "0"
}

var vOps = []resmgr.Operator{resmgr.Equals, resmgr.NotEqual, resmgr.In, resmgr.NotIn, resmgr.Exists, resmgr.NotExist,
	resmgr.AlwaysTrue, resmgr.Matches, resmgr.MatchesNot, resmgr.MatchesAny, resmgr.MatchesNone, resmgr.Operator("Bogus")}

var vSubKeys = []string{"name", "namespace", "qosclass", "id", "uid", "labels/app", "labels/io.k8s/x", "tags/t1", "tags/missing", "labels/missing",
	"pod/name", "pod/namespace", "pod/qosclass", "pod/id", "pod/uid", "pod/labels/app", "pod/labels/none", "pod/pod/name", "pod/tags/x",
	"pod", "labels", "tags", "bogus", "name/x", "pod/", "/name", "//pod//name", "./name", "pod/../name", "", "labels/", "pod/bogus"}

func vGenKey(rng *rand.Rand) (string, []string) {
	if rng.Intn(3) != 0 {
		k := vSubKeys[rng.Intn(len(vSubKeys))]
		return k, []string{k}
	}
	n := 2 + rng.Intn(3)
	parts := []string{}
	for i := 0; i < n; i++ {
		parts = append(parts, vSubKeys[rng.Intn(len(vSubKeys))])
	}
	seps := []string{":", ",", ";", "|", "#", "%", "a", ".", "/", "0", " ", "-"}
	switch rng.Intn(4) {
	case 0: // short form ":k1:k2"
		return ":" + strings.Join(parts, ":"), parts
	default:
		ks, vs := seps[rng.Intn(len(seps))], seps[rng.Intn(len(seps))]
		return ":" + ks + vs + strings.Join(parts, ks), parts
	}
}

func TestVerifC19Expr(t *testing.T) {
	out := os.Getenv("VERIF_OUT")
	if out == "" {
		t.Skip("VERIF_OUT not set")
	}
	f, err := os.Create(out)
	if err != nil {
		t.Fatal(err)
	}
	defer f.Close()
	w := bufio.NewWriterSize(f, 1<<20)
	defer w.Flush()
	rng := rand.New(rand.NewSource(verifEnvInt("VERIF_SEED", 1) + 19))
	n := 8000
	if os.Getenv("VERIF_TIER") == "thorough" {
		n = 400000
	}
	cch := &cache{Pods: map[string]*pod{}, Containers: map[string]*container{}}
	qos := []v1.PodQOSClass{v1.PodQOSGuaranteed, v1.PodQOSBurstable, v1.PodQOSBestEffort}
	names := []string{"c0", "web", "db-1", "kube-proxy", "a:b", "x,y"}
	nss := []string{"default", "kube-system", "prod", "monitoring"}
	vals := []string{"*", "c0", "web", "default", "kube-system", "Burstable", "Guaranteed", "front", "c*", "[a-", "?eb", "web:default", "default:web:front", "", "p0", "u0"}
	for i := 0; i < n; i++ {
		// subject
		podLabels := map[string]string{}
		if rng.Intn(2) == 0 {
			podLabels["app"] = []string{"front", "back", ""}[rng.Intn(3)]
		}
		p := &pod{cache: cch, Pod: &nri.PodSandbox{Id: "p0", Uid: "u0", Name: "pod-" + names[rng.Intn(len(names))], Namespace: nss[rng.Intn(len(nss))], Labels: podLabels}, QOSClass: qos[rng.Intn(3)]}
		hasPod := rng.Intn(8) != 0
		cch.Pods = map[string]*pod{}
		if hasPod {
			cch.Pods["p0"] = p
		}
		ctrLabels := map[string]string{}
		if rng.Intn(2) == 0 {
			ctrLabels["app"] = []string{"front", "back"}[rng.Intn(2)]
		}
		if rng.Intn(4) == 0 {
			ctrLabels["io.k8s/x"] = "y"
		}
		tags := map[string]string{}
		if rng.Intn(2) == 0 {
			tags["t1"] = []string{"v1", ""}[rng.Intn(2)]
		}
		c := &container{cache: cch, Ctr: &nri.Container{Id: "cid0", PodSandboxId: "p0", Name: names[rng.Intn(len(names))], Labels: ctrLabels}, Tags: tags}
		// expression
		key, parts := vGenKey(rng)
		op := vOps[rng.Intn(len(vOps))]
		nv := rng.Intn(4)
		if rng.Intn(2) == 0 {
			switch op {
			case resmgr.Equals, resmgr.NotEqual, resmgr.Matches, resmgr.MatchesNot:
				nv = 1
			case resmgr.Exists, resmgr.NotExist, resmgr.AlwaysTrue:
				nv = 0
			}
		}
		values := []string{}
		for j := 0; j < nv; j++ {
			values = append(values, vals[rng.Intn(len(vals))])
		}
		e := &resmgr.Expression{Key: key, Op: op, Values: values}
		valid := e.Validate() == nil
		// table of sub keys the model may need: generator parts, ':'-split of key[1:], the whole key
		subs := map[string]bool{key: true}
		for _, s := range parts {
			subs[s] = true
		}
		if len(key) > 0 {
			for _, s := range strings.Split(key[1:], ":") {
				subs[s] = true
			}
		}
		subList := make([]string, 0, len(subs))
		for s := range subs {
			subList = append(subList, s)
		}
		sort.Strings(subList)
		subTab := []string{}
		for _, s := range subList {
			v, found, err := resmgr.ResolveRef(c, s)
			st := "a"
			if err != nil {
				st = "e"
			} else if found {
				st = "f"
			}
			subTab = append(subTab, vHex(s)+"="+vHex(path.Clean(s))+"="+st+"="+vHex(v))
		}
		kvVal, kvOk := resmgr.KeyValue(key, c)
		// evaluation only for expressions the code accepts or that cannot index out of range
		evalRes := "x"
		panicked := false
		func() {
			defer func() {
				if r := recover(); r != nil {
					panicked = true
				}
			}()
			if valid || len(values) > 0 || op == resmgr.In || op == resmgr.NotIn || op == resmgr.MatchesAny || op == resmgr.MatchesNone || op == resmgr.Exists || op == resmgr.NotExist || op == resmgr.AlwaysTrue {
				evalRes = vBool(e.Evaluate(c))
			}
		}()
		if panicked {
			evalRes = "p"
		}
		// the documented dual operator on the same key, values and subject (negation clause,
		// judged on the implementation's own two answers)
		dualRes := "x"
		duals := map[resmgr.Operator]resmgr.Operator{resmgr.In: resmgr.NotIn, resmgr.NotIn: resmgr.In, resmgr.Matches: resmgr.MatchesNot, resmgr.MatchesNot: resmgr.Matches,
			resmgr.MatchesAny: resmgr.MatchesNone, resmgr.MatchesNone: resmgr.MatchesAny, resmgr.Exists: resmgr.NotExist, resmgr.NotExist: resmgr.Exists}
		if dop, ok := duals[op]; ok && evalRes != "x" && evalRes != "p" {
			func() {
				defer func() {
					if r := recover(); r != nil {
						dualRes = "p"
					}
				}()
				de := &resmgr.Expression{Key: e.Key, Op: dop, Values: e.Values}
				dualRes = vBool(de.Evaluate(c))
			}()
		}
		globTab := []string{}
		for _, pat := range values {
			m, _ := filepath.Match(pat, kvVal)
			globTab = append(globTab, vHex(pat)+"="+vHex(kvVal)+"="+vBool(m))
		}
		podSpec := "-"
		if hasPod {
			podSpec = strings.Join([]string{vHex(p.GetName()), vHex(p.GetNamespace()), vHex(string(p.GetQOSClass())), vHex(p.GetID()), vHex(p.GetUID()), vHexMap(podLabels)}, ":")
		}
		ctrSpec := strings.Join([]string{vHex(c.GetName()), vHex(c.GetNamespace()), vHex(string(c.GetQOSClass())), vHex(c.GetID()), vHexMap(ctrLabels), vHexMap(tags)}, ":")
		hv := []string{}
		for _, v := range values {
			hv = append(hv, vHex(v))
		}
		j := func(l []string) string {
			if len(l) == 0 {
				return "_"
			}
			return strings.Join(l, ",")
		}
		fmt.Fprintf(w, "X %s %s %s %s %s %s %s => %s %s %s %s %s\n", vHex(key), string(op), j(hv), ctrSpec, podSpec, j(subTab), j(globTab),
			vBool(valid), evalRes, vHex(kvVal), vBool(kvOk), dualRes)
	}
	// affinity weights through parseFull
	weights := []int32{0, 1, -1, 999, 1000, 1001, -1000, -1001, 2147483647, -2147483648, 50000, -50000}
	for i := 0; i < 400; i++ {
		wv := weights[rng.Intn(len(weights))]
		if rng.Intn(3) == 0 {
			wv = int32(rng.Uint32())
		}
		dflt := int32(1)
		if rng.Intn(2) == 0 {
			dflt = -1
		}
		p := &pod{cache: cch, Pod: &nri.PodSandbox{Id: "p0", Name: "pod0", Namespace: "default"}}
		pca := podContainerAffinity{}
		yamlStr := fmt.Sprintf("c0:\n- match:\n    key: name\n    operator: Exists\n  weight: %d\n", wv)
		if err := pca.parseFull(p, yamlStr, dflt); err != nil {
			fmt.Fprintf(w, "W %d %d => err\n", wv, dflt)
			continue
		}
		fmt.Fprintf(w, "W %d %d => %d\n", wv, dflt, pca["c0"][0].Weight)
	}
}
