//go:build verif

// C10 harness: drives the real cache (NewCache/Insert*/Delete*/Save/Load) on real state
// directories. Saves are interrupted with the kernel's own partial-write semantics
// (RLIMIT_FSIZE: a write is cut after k bytes, the next one fails), leftover temporary files of
// every kind are planted, and after every step the files on disk are identified; every reload is
// compared getter by getter with the cache at the save whose snapshot is on disk.
package cache

import (
	"time"
	"net"
	"bufio"
	"bytes"
	"crypto/sha256"
	"encoding/json"
	"fmt"
	"math/rand"
	"os"
	"os/signal"
	"path/filepath"
	"sort"
	"strings"
	"syscall"
	"testing"

	nri "github.com/containerd/nri/pkg/api"
	"github.com/containers/nri-plugins/pkg/agent/podresapi"
	logger "github.com/containers/nri-plugins/pkg/log"
	"github.com/containers/nri-plugins/pkg/topology"
	"github.com/containers/nri-plugins/pkg/utils/cpuset"
	podresv1 "k8s.io/kubelet/pkg/apis/podresources/v1"
)

type vBlob struct {
	A string
	B []int
	M map[string]int
}

// vCacheable is a policy entry that goes through the Cacheable interface (like the policies' own).
type vCacheable struct{ v vBlob }

func (c *vCacheable) Set(value interface{}) {
	switch x := value.(type) {
	case vBlob:
		c.v = x
	case *vBlob:
		c.v = *x
	}
}
func (c *vCacheable) Get() interface{}             { return c.v }
func (c *vCacheable) MarshalJSON() ([]byte, error) { return json.Marshal(c.v) }
func (c *vCacheable) UnmarshalJSON(b []byte) error { return json.Unmarshal(b, &c.v) }

type vC10 struct {
	w       *bufio.Writer
	rng     *rand.Rand
	ids     map[[32]byte]int
	nextID  int
	dumps   map[int]string // snapshot content id -> getter dump of the cache at that time
	entAt   map[int]map[string]string
	entries map[string]string
	dir     string
	cch     *cache
	nPod    int
	nCtr    int
}

func (h *vC10) content(b []byte, kind string) int {
	s := sha256.Sum256(b)
	if id, ok := h.ids[s]; ok {
		return id
	}
	h.nextID++
	h.ids[s] = h.nextID
	fmt.Fprintf(h.w, "N %d %d %s\n", h.nextID, len(b), kind)
	return h.nextID
}

func (h *vC10) fileTok(path string) string {
	fi, err := os.Lstat(path)
	if err != nil {
		return "absent"
	}
	if !fi.Mode().IsRegular() {
		return "notregular"
	}
	b, err := os.ReadFile(path)
	if err != nil {
		return "unreadable"
	}
	if id, ok := h.ids[sha256.Sum256(b)]; ok {
		return fmt.Sprint(id)
	}
	return fmt.Sprintf("?%d", len(b))
}

func (h *vC10) files() {
	fmt.Fprintf(h.w, "F %s %s\n", h.fileTok(filepath.Join(h.dir, "cache")), h.fileTok(filepath.Join(h.dir, "cache.saving")))
}

func vSortedKeys(m map[string]string) []string {
	ks := make([]string, 0, len(m))
	for k := range m {
		ks = append(ks, k)
	}
	sort.Strings(ks)
	return ks
}

// vDumpCache renders everything the property lists, through the public getters.
func (h *vC10) dump(cch *cache) string { return h.dumpWith(cch, h.entries) }

func (h *vC10) dumpWith(cch *cache, entries map[string]string) string {
	var b strings.Builder
	fmt.Fprintf(&b, "policy=%q\n", cch.GetActivePolicy())
	pods := cch.GetPods()
	sort.Slice(pods, func(i, j int) bool { return pods[i].GetID() < pods[j].GetID() })
	for _, p := range pods {
		fmt.Fprintf(&b, "pod %s uid=%s name=%s ns=%s qos=%s cg=%s pretty=%s\n", p.GetID(), p.GetUID(), p.GetName(), p.GetNamespace(), p.GetQOSClass(), p.GetCgroupParent(), p.PrettyName())
		pp := p.(*pod)
		for _, k := range vSortedKeys(pp.Pod.GetLabels()) {
			v, _ := p.GetLabel(k)
			fmt.Fprintf(&b, "  label %s=%q\n", k, v)
		}
		for _, k := range vSortedKeys(pp.Pod.GetAnnotations()) {
			v, _ := p.GetAnnotation(k)
			fmt.Fprintf(&b, "  ann %s=%q\n", k, v)
		}
		pr, _ := json.Marshal(p.GetPodResources())
		fmt.Fprintf(&b, "  podres %s\n", pr)
		pcs := p.GetContainers()
		sort.Slice(pcs, func(i, j int) bool { return pcs[i].GetID() < pcs[j].GetID() })
		for _, c := range pcs {
			aff, err := p.GetContainerAffinity(c.GetName())
			ab, _ := json.Marshal(aff)
			fmt.Fprintf(&b, "  affinity %s %s %v\n", c.GetName(), ab, err != nil)
		}
	}
	ctrs := cch.GetContainers()
	sort.Slice(ctrs, func(i, j int) bool { return ctrs[i].GetID() < ctrs[j].GetID() })
	for _, c := range ctrs {
		fmt.Fprintf(&b, "ctr %s pod=%s name=%s ns=%s state=%v qos=%s pretty=%s args=%q\n", c.GetID(), c.GetPodID(), c.GetName(), c.GetNamespace(), c.GetState(), c.GetQOSClass(), c.PrettyName(), c.GetArgs())
		cc := c.(*container)
		for _, k := range vSortedKeys(cc.Ctr.GetLabels()) {
			v, _ := c.GetLabel(k)
			fmt.Fprintf(&b, "  label %s=%q\n", k, v)
		}
		for _, e := range cc.Ctr.GetEnv() {
			k := strings.SplitN(e, "=", 2)[0]
			v, ok := c.GetEnv(k)
			fmt.Fprintf(&b, "  env %s=%q %v\n", k, v, ok)
		}
		mb, _ := json.Marshal(c.GetMounts())
		db, _ := json.Marshal(c.GetDevices())
		fmt.Fprintf(&b, "  mounts %s devices %s\n", mb, db)
		rb, _ := json.Marshal(c.GetResourceRequirements())
		ub, ok := c.GetResourceUpdates()
		ubb, _ := json.Marshal(ub)
		fmt.Fprintf(&b, "  req %s upd %s %v\n", rb, ubb, ok)
		lb, _ := json.Marshal(cc.GetLinuxResources())
		fmt.Fprintf(&b, "  linux %s\n", lb)
		crb, _ := json.Marshal(c.GetPodResources())
		fmt.Fprintf(&b, "  ctrres %s\n", crb)
		hb, _ := json.Marshal(c.GetTopologyHints())
		fmt.Fprintf(&b, "  hints %s\n", hb)
		fmt.Fprintf(&b, "  cpu %d %d %d %q %q mem %d %d rdt=%q blkio=%q cgdir=%q\n", c.GetCPUShares(), c.GetCPUQuota(), c.GetCPUPeriod(), c.GetCpusetCpus(), c.GetCpusetMems(),
			c.GetMemoryLimit(), c.GetMemorySwap(), c.GetRDTClass(), c.GetBlockIOClass(), cc.CgroupDir)
		fmt.Fprintf(&b, "  preserve %v %v toptier=%d\n", c.PreserveCpuResources(), c.PreserveMemoryResources(), cc.ToptierLimit)
		for _, k := range vSortedKeys(cc.Tags) {
			v, _ := c.GetTag(k)
			fmt.Fprintf(&b, "  tag %s=%q\n", k, v)
		}
		aff, err := c.GetAffinity()
		ab, _ := json.Marshal(aff)
		fmt.Fprintf(&b, "  affinity %s %v\n", ab, err != nil)
	}
	for _, k := range vSortedKeys(entries) {
		switch entries[k] {
		case "string":
			var v string
			ok := cch.GetPolicyEntry(k, &v)
			fmt.Fprintf(&b, "entry %s %v %q\n", k, ok, v)
		case "int":
			var v int
			ok := cch.GetPolicyEntry(k, &v)
			fmt.Fprintf(&b, "entry %s %v %d\n", k, ok, v)
		case "strmap":
			var v map[string]string
			ok := cch.GetPolicyEntry(k, &v)
			ks := []string{}
			for kk, vv := range v {
				ks = append(ks, kk+"="+vv)
			}
			sort.Strings(ks)
			fmt.Fprintf(&b, "entry %s %v %q\n", k, ok, ks)
		case "bool":
			var v bool
			ok := cch.GetPolicyEntry(k, &v)
			fmt.Fprintf(&b, "entry %s %v %v\n", k, ok, v)
		case "uint64":
			var v uint64
			ok := cch.GetPolicyEntry(k, &v)
			fmt.Fprintf(&b, "entry %s %v %d\n", k, ok, v)
		case "cpuset":
			var v cpuset.CPUSet
			ok := cch.GetPolicyEntry(k, &v)
			fmt.Fprintf(&b, "entry %s %v %s\n", k, ok, v.String())
		case "cpusetmap":
			var v map[string]cpuset.CPUSet
			ok := cch.GetPolicyEntry(k, &v)
			ks := []string{}
			for kk, vv := range v {
				ks = append(ks, kk+"="+vv.String())
			}
			sort.Strings(ks)
			fmt.Fprintf(&b, "entry %s %v %q\n", k, ok, ks)
		case "cacheable":
			v := &vCacheable{}
			ok := cch.GetPolicyEntry(k, v)
			vb, _ := json.Marshal(v.v)
			fmt.Fprintf(&b, "entry %s %v %s\n", k, ok, vb)
		}
	}
	return b.String()
}

func vWithWriteLimit(k int64, fn func()) {
	var old syscall.Rlimit
	if err := syscall.Getrlimit(syscall.RLIMIT_FSIZE, &old); err != nil {
		panic(err)
	}
	lim := old
	lim.Cur = uint64(k)
	if err := syscall.Setrlimit(syscall.RLIMIT_FSIZE, &lim); err != nil {
		panic(err)
	}
	defer func() {
		if err := syscall.Setrlimit(syscall.RLIMIT_FSIZE, &old); err != nil {
			panic(err)
		}
	}()
	fn()
}

func (h *vC10) genPod() *nri.PodSandbox {
	h.nPod++
	id := fmt.Sprintf("p%d", h.nPod)
	rng := h.rng
	parent := []string{"/kubepods/pod" + id, "/kubepods/burstable/pod" + id, "/kubepods/besteffort/pod" + id, "/kubepods.slice/kubepods-burstable.slice/kubepods-burstable-pod" + id + ".slice", ""}[rng.Intn(5)]
	p := &nri.PodSandbox{Id: id, Uid: "uid-" + id, Name: "pod-" + id, Namespace: []string{"default", "kube-system", "prod"}[rng.Intn(3)],
		Labels: map[string]string{}, Annotations: map[string]string{}, Linux: &nri.LinuxPodSandbox{CgroupParent: parent}}
	if rng.Intn(2) == 0 {
		p.Labels["app"] = []string{"web", "db", "a\"b", "ü"}[rng.Intn(4)]
	}
	if rng.Intn(3) == 0 {
		p.Labels["io.kubernetes.pod.uid"] = p.Uid
	}
	switch rng.Intn(6) {
	case 0:
		p.Annotations["resource-policy.nri.io/affinity"] = "ctr0: [ ctr1 ]"
	case 1:
		p.Annotations["resource-policy.nri.io/anti-affinity"] = "ctr1:\n- scope:\n    key: pod/name\n    operator: Matches\n    values: [ \"*\" ]\n  match:\n    key: name\n    operator: Equals\n    values: [ ctr0 ]\n  weight: 7\n"
	case 2:
		p.Annotations["prefer-shared-cpus.resource-policy.nri.io/pod"] = "true"
	case 3:
		p.Annotations["memory-type.resource-policy.nri.io/container.ctr0"] = "dram,pmem"
	}
	if rng.Intn(4) == 0 {
		p.Annotations["cpu.preserve.resource-policy.nri.io/container.ctr1"] = "true"
	}
	return p
}

func (h *vC10) genCtr(podID string, idx int) *nri.Container {
	h.nCtr++
	rng := h.rng
	id := fmt.Sprintf("c%d", h.nCtr)
	res := &nri.LinuxResources{}
	if rng.Intn(4) != 0 {
		res.Cpu = &nri.LinuxCPU{Shares: nri.UInt64(uint64(2 + rng.Intn(4096)))}
		if rng.Intn(2) == 0 {
			res.Cpu.Quota, res.Cpu.Period = nri.Int64(int64(1000*(1+rng.Intn(400)))), nri.UInt64(100000)
		}
		if rng.Intn(3) == 0 {
			res.Cpu.Cpus, res.Cpu.Mems = "0-3", "0"
		}
	}
	if rng.Intn(3) != 0 {
		res.Memory = &nri.LinuxMemory{Limit: nri.Int64(int64(1+rng.Intn(1000)) << 20)}
	}
	if rng.Intn(5) == 0 {
		res.HugepageLimits = []*nri.HugepageLimit{{PageSize: "2MB", Limit: 1 << 21}}
	}
	c := &nri.Container{Id: id, PodSandboxId: podID, Name: fmt.Sprintf("ctr%d", idx), State: nri.ContainerState(rng.Intn(5)),
		Labels: map[string]string{}, Annotations: map[string]string{}, Args: []string{"sh", "-c", "sleep \"inf\""}[:rng.Intn(4)],
		Linux: &nri.LinuxContainer{Resources: res, OomScoreAdj: &nri.OptionalInt{Value: int64(rng.Intn(2000) - 1000)}}}
	if rng.Intn(2) == 0 {
		c.Env = []string{"A=b", "EMPTY=", "X=y=z"}[:1+rng.Intn(3)]
	}
	if rng.Intn(3) == 0 {
		c.Labels["io.kubernetes.container.name"] = c.Name
	}
	if rng.Intn(4) == 0 {
		c.Mounts = []*nri.Mount{{Destination: "/data", Source: "/nonexistent/verif/data", Type: "bind", Options: []string{"rw", "rbind"}}}
	}
	if rng.Intn(6) == 0 {
		c.Linux.Devices = []*nri.LinuxDevice{{Path: "/dev/verif0", Type: "c", Major: 1, Minor: 3}}
	}
	return c
}

func (h *vC10) mutate() string {
	rng := h.rng
	cch := h.cch
	ids := cch.GetContainerIds()
	sort.Strings(ids)
	if len(ids) > 0 && rng.Intn(3) != 0 {
		ci, _ := cch.LookupContainer(ids[rng.Intn(len(ids))])
		c := ci.(*container)
		switch rng.Intn(12) {
		case 0:
			c.SetCpusetCpus([]string{"0-1", "2,4", ""}[rng.Intn(3)])
		case 1:
			c.SetCpusetMems([]string{"0", "0-1", ""}[rng.Intn(3)])
		case 2:
			c.SetCPUShares(int64(2 + rng.Intn(2000)))
		case 3:
			c.SetCPUQuota(int64(rng.Intn(200000)))
			c.SetCPUPeriod(100000)
		case 4:
			c.SetMemoryLimit(int64(rng.Intn(1 << 30)))
			c.SetMemorySwap(int64(rng.Intn(1 << 30)))
		case 5:
			c.SetTag([]string{"t1", "t2", "k\"q"}[rng.Intn(3)], []string{"v", "", "w w"}[rng.Intn(3)])
		case 6:
			c.DeleteTag("t1")
		case 7:
			c.UpdateState(ContainerState(rng.Intn(5)))
		case 8:
			c.SetResourceUpdates(&nri.LinuxResources{Cpu: &nri.LinuxCPU{Shares: nri.UInt64(uint64(2 + rng.Intn(4096)))}, Memory: &nri.LinuxMemory{Limit: nri.Int64(int64(1+rng.Intn(100)) << 20)}})
		case 9:
			c.SetRDTClass([]string{"gold", "silver"}[rng.Intn(2)])
			c.SetBlockIOClass([]string{"slow", "fast"}[rng.Intn(2)])
		case 10:
			c.TopologyHints = topology.Hints{"/dev/verif0": topology.Hint{Provider: "/dev/verif0", CPUs: "0-3", NUMAs: "0", Sockets: "0"}}
		case 11:
			c.ToptierLimit = int64(rng.Intn(1 << 20))
			c.GetCgroupDir()
		}
		return "mutate-ctr"
	}
	if pods := cch.GetPods(); len(pods) > 0 && rng.Intn(4) == 0 {
		sort.Slice(pods, func(i, j int) bool { return pods[i].GetID() < pods[j].GetID() })
		p := pods[rng.Intn(len(pods))].(*pod)
		p.setPodResources(&podresapi.PodResources{PodResources: &podresv1.PodResources{Name: p.GetName(), Namespace: p.GetNamespace(),
			Containers: []*podresv1.ContainerResources{{Name: "ctr0", CpuIds: []int64{1, int64(2 + rng.Intn(3))}}, {Name: "ctr1", Memory: []*podresv1.ContainerMemory{{MemoryType: "memory", Size_: 4096}}}}}})
		return "mutate-pod"
	}
	key := fmt.Sprintf("k%d", rng.Intn(6))
	typ := []string{"string", "int", "strmap", "cpuset", "cpusetmap", "cacheable", "bool", "uint64"}[rng.Intn(8)]
	if old, ok := h.entries[key]; ok {
		typ = old // a key keeps its type, as in the policies
	}
	h.entries[key] = typ
	switch typ {
	case "string":
		cch.SetPolicyEntry(key, []string{"", "x", "with \"quotes\" and \\ and \n", strings.Repeat("long", 50+rng.Intn(200))}[rng.Intn(4)])
	case "int":
		cch.SetPolicyEntry(key, rng.Intn(1000))
	case "strmap":
		cch.SetPolicyEntry(key, map[string]string{"a": "1", "b\"": "x y"})
	case "bool":
		cch.SetPolicyEntry(key, rng.Intn(2) == 0)
	case "uint64":
		cch.SetPolicyEntry(key, uint64(rng.Int63())<<1|1)
	case "cpuset":
		cch.SetPolicyEntry(key, cpuset.New(rng.Perm(16)[:rng.Intn(8)]...))
	case "cpusetmap":
		m := map[string]cpuset.CPUSet{}
		for i := 0; i < rng.Intn(4); i++ {
			m[fmt.Sprintf("m%d", i)] = cpuset.New(rng.Perm(16)[:rng.Intn(8)]...)
		}
		cch.SetPolicyEntry(key, m)
	case "cacheable":
		cch.SetPolicyEntry(key, vBlob{A: "blob", B: rng.Perm(5)[:rng.Intn(5)], M: map[string]int{"x": rng.Intn(9)}})
	}
	if rng.Intn(8) == 0 {
		cch.PolicyName = []string{"topology-aware", "balloons", "template"}[rng.Intn(3)]
	}
	return "mutate-entry"
}

// saveOp runs fn (an operation that saves) with or without an interrupted write and reports.
func (h *vC10) saveOp(name string, fn func() error, mayFail bool) {
	rng := h.rng
	// the snapshot this operation will try to write is only known after its in-memory part ran:
	// run the in-memory effect first through a dry snapshot when possible
	fail := mayFail && rng.Intn(3) == 0
	var err error
	var snap []byte
	var k int64 = -1
	if fail {
		// choose the cut relative to the snapshot the operation will write; for insert/delete the
		// snapshot is not known in advance, so the cut is chosen on the current one (its size differs by
		// little) and clamped by the harness afterwards
		cur, _ := h.cch.Snapshot()
		k = int64(rng.Intn(len(cur) + 1))
		if rng.Intn(4) == 0 {
			k = 0
		}
		vWithWriteLimit(k, func() { err = fn() })
	} else {
		err = fn()
	}
	snap, _ = h.cch.Snapshot()
	sid := h.content(snap, "snap")
	h.dumps[sid] = h.dump(h.cch)
	h.entAt[sid] = vCopyMap(h.entries)
	if fail && k < int64(len(snap)) {
		pid := h.content(snap[:k], "prefix")
		fmt.Fprintf(h.w, "S savefail %s %d %d %d %s\n", name, sid, k, pid, vErrTok(err))
	} else {
		fmt.Fprintf(h.w, "S save %s %d %s\n", name, sid, vErrTok(err))
	}
	h.files()
}

func vCopyMap(m map[string]string) map[string]string {
	r := map[string]string{}
	for k, v := range m {
		r[k] = v
	}
	return r
}

func vErrTok(err error) string {
	if err != nil {
		return "err"
	}
	return "ok"
}

func (h *vC10) plant() {
	rng := h.rng
	tmp := filepath.Join(h.dir, "cache.saving")
	var b []byte
	kind := "garbage"
	cur, _ := h.cch.Snapshot()
	parent, cut := "-", 0
	switch rng.Intn(5) {
	case 0: // a longer file: the current snapshot plus a long tail
		b = append(append([]byte{}, cur...), bytes.Repeat([]byte("{\"tail\":1}"), 1+rng.Intn(50))...)
	case 1: // a prefix of the current snapshot (crash inside an earlier write)
		cut = rng.Intn(len(cur) + 1)
		b = append([]byte{}, cur[:cut]...)
		kind = "prefix"
	case 2: // the complete current snapshot (crash between write and rename)
		b = append([]byte{}, cur...)
		kind, cut = "snap", len(cur)
	case 3:
		b = bytes.Repeat([]byte{'x'}, 1+rng.Intn(3*len(cur)+10))
	case 4:
		b = []byte{}
		kind, cut = "prefix", 0
	}
	if kind != "garbage" {
		sid := h.content(cur, "snap")
		h.dumps[sid] = h.dump(h.cch)
		h.entAt[sid] = vCopyMap(h.entries)
		parent = fmt.Sprint(sid)
	}
	if err := os.WriteFile(tmp, b, 0o644); err != nil {
		panic(err)
	}
	id := h.content(b, kind)
	fmt.Fprintf(h.w, "S plant %d %s %d\n", id, parent, cut)
	h.files()
}

func (h *vC10) reload() {
	disk := h.fileTok(filepath.Join(h.dir, "cache"))
	c2, err := NewCache(Options{CacheDir: h.dir})
	if err != nil {
		fmt.Fprintf(h.w, "L err 0 %s %s\n", disk, vOneWordC10(err.Error()))
		// continue with the old in-memory cache (as if the restart had not happened)
		return
	}
	n := c2.(*cache)
	if h.rng.Intn(2) == 0 {
		// the restarted plugin saves before anybody has looked at the restored policy entries (every InsertPod does),
		// and restarts once more: what was restored must still be there
		snap, _ := n.Snapshot()
		sid := h.content(snap, "snap")
		if _, have := h.dumps[sid]; !have {
			if want, ok := h.dumps[mustAtoi(disk)]; ok {
				h.dumps[sid] = want
				h.entAt[sid] = vCopyMap(h.entAt[mustAtoi(disk)])
			} else if disk == "absent" {
				// nothing was ever saved: the restored cache is empty and so is what it saves
				h.dumps[sid] = h.dumpWith(&cache{Pods: map[string]*pod{}, Containers: map[string]*container{}, PolicyJSON: map[string]string{}, policyData: map[string]interface{}{}}, map[string]string{})
				h.entAt[sid] = map[string]string{}
			}
		}
		err := n.Save()
		fmt.Fprintf(h.w, "S save resave %d %s\n", sid, vErrTok(err))
		h.files()
		disk = h.fileTok(filepath.Join(h.dir, "cache"))
		c3, err := NewCache(Options{CacheDir: h.dir})
		if err != nil {
			fmt.Fprintf(h.w, "L err 0 %s %s\n", disk, vOneWordC10(err.Error()))
			return
		}
		n = c3.(*cache)
	}
	equal, diff := 0, "-"
	var id int
	if _, e := fmt.Sscanf(disk, "%d", &id); e == nil && !strings.HasPrefix(disk, "?") {
		want, ok := h.dumps[id]
		got := h.dumpWith(n, h.entAt[id])
		if ok && want == got {
			equal = 1
		} else if ok {
			wl, gl := strings.Split(want, "\n"), strings.Split(got, "\n")
			for i := 0; i < len(wl) || i < len(gl); i++ {
				a, b := "", ""
				if i < len(wl) {
					a = wl[i]
				}
				if i < len(gl) {
					b = gl[i]
				}
				if a != b {
					diff = vOneWordC10(fmt.Sprintf("saved:[%s] reloaded:[%s]", a, b))
					break
				}
			}
		} else {
			diff = "no-dump-for-disk-content"
		}
	} else if disk == "absent" {
		// nothing was ever saved: the reloaded cache must be empty
		if len(n.Pods) == 0 && len(n.Containers) == 0 && len(n.PolicyJSON) == 0 {
			equal = 1
		}
	}
	fmt.Fprintf(h.w, "L ok %d %s %s\n", equal, disk, diff)
	h.cch = n // the restart happened: go on with the reloaded cache
	if e, ok := h.entAt[id]; ok {
		h.entries = vCopyMap(e)
	} else {
		h.entries = map[string]string{}
	}
	h.files()
}

func mustAtoi(s string) int {
	var id int
	if _, err := fmt.Sscanf(s, "%d", &id); err != nil || strings.HasPrefix(s, "?") {
		return -1
	}
	return id
}

func vOneWordC10(s string) string {
	return strings.Map(func(r rune) rune {
		if r == ' ' || r == '\n' || r == '\t' || r == '\r' {
			return '_'
		}
		return r
	}, s)
}

func TestVerifC10Save(t *testing.T) {
	out := os.Getenv("VERIF_OUT")
	if out == "" {
		t.Skip("VERIF_OUT not set")
	}
	logger.SetLevel(logger.LevelFatal)
	signal.Ignore(syscall.SIGXFSZ)
	syscall.Umask(0o022)
	var buf bytes.Buffer // everything is buffered in memory: the output file must not be hit by the write limit
	w := bufio.NewWriterSize(&buf, 1<<16)
	seed := verifEnvInt("VERIF_SEED", 1)
	nh := int(verifEnvInt("VERIF_HISTORIES", 150))
	if os.Getenv("VERIF_TIER") == "thorough" {
		nh = int(verifEnvInt("VERIF_HISTORIES", 3000))
	}
	base, err := os.MkdirTemp(os.Getenv("VERIF_TMP"), "c10-")
	if err != nil {
		t.Fatal(err)
	}
	defer os.RemoveAll(base)
	for hi := 0; hi < nh; hi++ {
		rng := rand.New(rand.NewSource(seed*1000003 + int64(hi)))
		h := &vC10{w: w, rng: rng, ids: map[[32]byte]int{}, dumps: map[int]string{}, entAt: map[int]map[string]string{}, entries: map[string]string{}, dir: filepath.Join(base, fmt.Sprintf("h%d", hi))}
		fmt.Fprintf(w, "H %d\n", hi)
		c, err := NewCache(Options{CacheDir: h.dir})
		if err != nil {
			t.Fatalf("NewCache: %v", err)
		}
		h.cch = c.(*cache)
		h.files()
		pods := []string{}
		nops := 10 + rng.Intn(40)
		for i := 0; i < nops; i++ {
			switch r := rng.Intn(20); {
			case r < 3 || len(pods) == 0:
				p := h.genPod()
				// (pod resources are set synchronously by a later step: the asynchronous fetch of InsertPod races with its own Save)
				h.saveOp("insertpod", func() error { h.cch.InsertPod(p, nil); return nil }, true)
				pods = append(pods, p.Id)
			case r < 7:
				pid := pods[rng.Intn(len(pods))]
				if _, ok := h.cch.LookupPod(pid); !ok {
					continue
				}
				idx := 0
				if pp, ok := h.cch.LookupPod(pid); ok {
					idx = len(pp.GetContainers())
				}
				nc := h.genCtr(pid, idx)
				h.saveOp("insertctr", func() error { _, err := h.cch.InsertContainer(nc); return err }, true)
			case r < 8:
				ids := h.cch.GetContainerIds()
				sort.Strings(ids)
				if len(ids) == 0 {
					continue
				}
				id := ids[rng.Intn(len(ids))]
				h.saveOp("delctr", func() error { h.cch.DeleteContainer(id); return nil }, true)
			case r < 9:
				pid := pods[rng.Intn(len(pods))]
				if pp, ok := h.cch.LookupPod(pid); ok {
					for _, c := range pp.GetContainers() {
						id := c.GetID()
						h.saveOp("delctr", func() error { h.cch.DeleteContainer(id); return nil }, false)
					}
					h.saveOp("delpod", func() error { h.cch.DeletePod(pid); return nil }, true)
				}
			case r < 13:
				h.mutate()
			case r < 16:
				h.saveOp("save", func() error { return h.cch.Save() }, true)
			case r < 18:
				h.plant()
			default:
				h.reload()
			}
		}
		h.saveOp("save", func() error { return h.cch.Save() }, false)
		h.reload()
	}
	// ---- file type / permission matrix
	fmt.Fprintf(w, "H perms\n")
	good := filepath.Join(base, "good")
	gc, err := NewCache(Options{CacheDir: good})
	if err != nil {
		t.Fatal(err)
	}
	gc.(*cache).InsertPod(&nri.PodSandbox{Id: "p", Name: "p", Namespace: "default"}, nil)
	snap, _ := os.ReadFile(filepath.Join(good, "cache"))
	n := 0
	try := func(target, kind string, mode int, prep func(dir string)) {
		n++
		dir := filepath.Join(base, fmt.Sprintf("perm%d", n))
		prep(dir)
		// a cache that goes on to USE a special file may block reading it: watchdog, then unblock
		done := make(chan error, 1)
		go func() { _, err := NewCache(Options{CacheDir: dir}); done <- err }()
		res := "accepted"
		select {
		case err := <-done:
			if err != nil {
				res = "refused"
			}
		case <-time.After(3 * time.Second):
			res = "accepted-and-blocked"
			if f, err := os.OpenFile(filepath.Join(dir, "cache"), os.O_WRONLY|syscall.O_NONBLOCK, 0); err == nil {
				f.Write(snap)
				f.Close()
			}
			select {
			case <-done:
			case <-time.After(5 * time.Second):
			}
		}
		fmt.Fprintf(w, "P %s %s %d %s\n", target, kind, mode, res)
		os.RemoveAll(dir)
		os.RemoveAll(dir + ".target")
	}
	mkdir := func(d string, m os.FileMode) {
		if err := os.MkdirAll(d, 0o755); err != nil {
			t.Fatal(err)
		}
		if err := os.Chmod(d, m); err != nil {
			t.Fatal(err)
		}
	}
	for mode := 0; mode < 512; mode++ {
		m := os.FileMode(mode)
		try("file", "regular", mode, func(dir string) {
			mkdir(dir, 0o710)
			os.WriteFile(filepath.Join(dir, "cache"), snap, 0o600)
			os.Chmod(filepath.Join(dir, "cache"), m)
		})
		try("dir", "dir", mode, func(dir string) { mkdir(dir, m) })
		try("data", "dir", mode, func(dir string) { mkdir(dir, 0o710); mkdir(filepath.Join(dir, "containers"), m) })
	}
	try("file", "absent", 0, func(dir string) { mkdir(dir, 0o710) })
	try("dir", "absent", 0, func(dir string) {})
	try("file", "symlink", 0o644, func(dir string) {
		mkdir(dir, 0o710)
		os.WriteFile(dir+".target", snap, 0o644)
		os.Symlink(dir+".target", filepath.Join(dir, "cache"))
	})
	try("file", "symlink", 0, func(dir string) { mkdir(dir, 0o710); os.Symlink(dir+".nonexistent", filepath.Join(dir, "cache")) })
	try("file", "dir", 0o755, func(dir string) { mkdir(dir, 0o710); mkdir(filepath.Join(dir, "cache"), 0o755) })
	try("file", "other", 0o644, func(dir string) { mkdir(dir, 0o710); syscall.Mkfifo(filepath.Join(dir, "cache"), 0o644) })
	try("file", "other", 0o600, func(dir string) { mkdir(dir, 0o710); syscall.Mkfifo(filepath.Join(dir, "cache"), 0o600) })
	try("file", "other", 0o644, func(dir string) {
		mkdir(dir, 0o710)
		if l, err := net.Listen("unix", filepath.Join(dir, "cache")); err == nil {
			l.(*net.UnixListener).SetUnlinkOnClose(false)
			l.Close()
		}
		os.Chmod(filepath.Join(dir, "cache"), 0o644)
	})
	try("file", "other", 0o644, func(dir string) {
		mkdir(dir, 0o710)
		syscall.Mknod(filepath.Join(dir, "cache"), syscall.S_IFCHR|0o644, 1<<8|3) // a character device (as /dev/null), if permitted
	})
	try("data", "other", 0o755, func(dir string) { mkdir(dir, 0o710); syscall.Mkfifo(filepath.Join(dir, "containers"), 0o755) })
	try("dir", "symlink", 0o710, func(dir string) { mkdir(dir+".target", 0o710); os.Symlink(dir+".target", dir) })
	try("dir", "regular", 0o644, func(dir string) { os.WriteFile(dir, []byte("x"), 0o644) })
	try("data", "symlink", 0o755, func(dir string) {
		mkdir(dir, 0o710)
		mkdir(dir+".target", 0o755)
		os.Symlink(dir+".target", filepath.Join(dir, "containers"))
	})
	try("data", "regular", 0o644, func(dir string) { mkdir(dir, 0o710); os.WriteFile(filepath.Join(dir, "containers"), []byte("x"), 0o644) })
	w.Flush()
	if err := os.WriteFile(out, buf.Bytes(), 0o644); err != nil {
		t.Fatal(err)
	}
}
