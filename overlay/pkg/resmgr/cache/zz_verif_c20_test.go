//go:build verif

package cache

// C20 glue harness: estimateResourceRequirements on generated NRI resources.

import (
	"bufio"
	"fmt"
	"math/rand"
	"os"
	"strconv"
	"testing"

	nri "github.com/containerd/nri/pkg/api"
	corev1 "k8s.io/api/core/v1"

	"github.com/containers/nri-plugins/pkg/kubernetes"
)

func verifEnvInt(name string, def int64) int64 {
	if v, err := strconv.ParseInt(os.Getenv(name), 10, 64); err == nil {
		return v
	}
	return def
}

func verifQty(rl corev1.ResourceList, name corev1.ResourceName, milli bool) int64 {
	q, ok := rl[name]
	if !ok {
		return -1
	}
	if milli {
		return q.MilliValue()
	}
	return q.Value()
}

func TestVerifC20Estimate(t *testing.T) {
	out := os.Getenv("VERIF_OUT")
	if out == "" {
		t.Skip("VERIF_OUT not set")
	}
	f, err := os.Create(out)
	if err != nil {
		t.Fatal(err)
	}
	defer f.Close()
	w := bufio.NewWriterSize(f, 1<<20)
	defer w.Flush()

	rng := rand.New(rand.NewSource(verifEnvInt("VERIF_SEED", 1)))
	n := 30000
	if os.Getenv("VERIF_TIER") == "thorough" {
		n = 600000
	}
	saved := kubernetes.GetMemoryCapacity()
	defer kubernetes.SetMemoryCapacity(saved)
	capacity := int64(0)
	qosNames := []corev1.PodQOSClass{corev1.PodQOSGuaranteed, corev1.PodQOSBurstable, corev1.PodQOSBestEffort}
	for i := 0; i < n; i++ {
		if i%1000 == 0 {
			capacity = (int64(1) << (20 + rng.Intn(25))) + rng.Int63n(1<<20)
			kubernetes.SetMemoryCapacity(capacity)
		}
		qi := rng.Intn(3)
		var milli int64
		switch rng.Intn(4) {
		case 0:
			milli = 0
		case 1:
			milli = int64(rng.Intn(257)) * 1000
		case 2:
			milli = int64(rng.Intn(2049)) * 125
		default:
			milli = rng.Int63n(256001)
		}
		r := &nri.LinuxResources{}
		absent := rng.Intn(10) == 0
		origMilli, origLim := int64(-1), int64(-1) // what the kubelet encoded (-1: not encoded)
		if !absent {
			r.Cpu = &nri.LinuxCPU{}
			if rng.Intn(8) != 0 {
				r.Cpu.Shares = nri.UInt64(kubernetes.MilliCPUToShares(milli))
				origMilli = milli
			}
			lim := milli + int64(rng.Intn(3))*rng.Int63n(4000)
			if rng.Intn(4) != 0 {
				q, p := kubernetes.MilliCPUToQuota(lim)
				r.Cpu.Quota = nri.Int64(q)
				r.Cpu.Period = nri.UInt64(uint64(p))
				origLim = lim
			}
		}
		memLimit := int64(0)
		if rng.Intn(3) != 0 {
			memLimit = rng.Int63n(capacity + 1)
			r.Memory = &nri.LinuxMemory{Limit: nri.Int64(memLimit)}
		}
		oomAdj := int64(rng.Intn(1010) - 5)
		res := estimateResourceRequirements(r, qosNames[qi], oomAdj)
		shares := int64(r.GetCpu().GetShares().GetValue())
		quota := r.GetCpu().GetQuota().GetValue()
		period := int64(r.GetCpu().GetPeriod().GetValue())
		fmt.Fprintf(w, "est %d %d %d %d %d %d %d %d %d %d %d %d %d\n", capacity, qi, shares, quota, period, memLimit, oomAdj,
			verifQty(res.Requests, corev1.ResourceCPU, true), verifQty(res.Limits, corev1.ResourceCPU, true),
			verifQty(res.Requests, corev1.ResourceMemory, false), verifQty(res.Limits, corev1.ResourceMemory, false), origMilli, origLim)
	}
}
