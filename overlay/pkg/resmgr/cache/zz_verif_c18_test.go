//go:build verif

package cache

import (
	"bufio"
	"fmt"
	"math/rand"
	"os"
	"testing"

	nri "github.com/containerd/nri/pkg/api"
)

func TestVerifC18Cache(t *testing.T) {
	out := os.Getenv("VERIF_OUT")
	if out == "" {
		t.Skip("VERIF_OUT not set")
	}
	f, err := os.Create(out)
	if err != nil {
		t.Fatal(err)
	}
	defer f.Close()
	w := bufio.NewWriterSize(f, 1<<20)
	defer w.Flush()
	rng := rand.New(rand.NewSource(verifEnvInt("VERIF_SEED", 1) + 18))
	n := 6000
	if os.Getenv("VERIF_TIER") == "thorough" {
		n = 300000
	}
	keys := []string{"k", "k/pod", "k/container.c", "prefer-shared-cpus.resource-policy.nri.io", "a.b", "memory-type.resource-policy.nri.io"}
	for i := 0; i < n; i++ {
		ann := vGenThreeForm(rng, keys)
		p := &pod{Pod: &nri.PodSandbox{Id: "p0", Name: "pod0", Annotations: ann}}
		key := vPickKey(rng, ann, keys)
		ctr := vPickCtr(rng, ann)
		res := map[string]bool{}
		last := ""
		// repeated evaluation: the lookups must not depend on Go's map order
		for r := 0; r < 3; r++ {
			v, ok := p.GetEffectiveAnnotation(key, ctr)
			last = "NONE"
			if ok {
				last = "=" + vEnc(v)
			}
			res[last] = true
		}
		if len(res) != 1 {
			fmt.Fprintf(w, "ORDER cache %s %s %s\n", key, ctr, vEncMap(ann))
		}
		fmt.Fprintf(w, "E3 cache %s %s %s => %s\n", key, ctr, vEncMap(ann), last)
	}
}
