//go:build verif

package resmgr

// Shared resource-manager harness (C01-C05, C09, C11-C15): a real `resmgr` is assembled by hand
// (real cache on a temp state dir, real nriPlugin, real policy backend on a generated machine,
// real controllers) - only the ttrpc connection (`nri.start()`) is replaced by a recording stub.
// Histories of NRI events are generated from one PRNG and executed through the real handlers;
// after every request the reply, the cache view of every container and the policy snapshot are
// written out, one line each, for the Lean driver.

import (
	"bufio"
	"context"
	"fmt"
	"math/rand"
	"os"
	"path/filepath"
	"sort"
	"strconv"
	"strings"
	"testing"

	"github.com/containerd/nri/pkg/api"
	"github.com/containerd/nri/pkg/stub"

	balloons "github.com/containers/nri-plugins/cmd/plugins/balloons/policy"
	topologyaware "github.com/containers/nri-plugins/cmd/plugins/topology-aware/policy"
	"github.com/containers/nri-plugins/pkg/agent"
	cfgapi "github.com/containers/nri-plugins/pkg/apis/config/v1alpha1"
	policycfg "github.com/containers/nri-plugins/pkg/apis/config/v1alpha1/resmgr/policy"
	bcfg "github.com/containers/nri-plugins/pkg/apis/config/v1alpha1/resmgr/policy/balloons"
	tacfg "github.com/containers/nri-plugins/pkg/apis/config/v1alpha1/resmgr/policy/topologyaware"
	"github.com/containers/nri-plugins/pkg/kubernetes"
	"github.com/containers/nri-plugins/pkg/resmgr/cache"
	logger "github.com/containers/nri-plugins/pkg/log"
	"github.com/containers/nri-plugins/pkg/resmgr/policy"
	"github.com/containers/nri-plugins/pkg/sysfs"
	"github.com/containers/nri-plugins/pkg/verifgen"
)

type vStub struct {
	stub.Stub
	pushed [][]*api.ContainerUpdate
}

func (s *vStub) UpdateContainers(u []*api.ContainerUpdate) ([]*api.ContainerUpdate, error) {
	s.pushed = append(s.pushed, u)
	return nil, nil
}

type vHarness struct {
	m        *resmgr
	stub     *vStub
	backend  policy.Backend
	dir      string
	polName  string
	t        *testing.T
	mach     *verifgen.Machine
	stateDir string
	cfgv     cfgapi.ResmgrConfig
	treePrinted bool
}

// vRestart models a plugin restart: a new resource manager on the same state directory.
func (h *vHarness) vRestart() error {
	h2, err := vNewHarness(h.t, h.mach, h.dir, h.stateDir, h.polName, h.cfgv)
	if err != nil {
		return err
	}
	*h = *h2
	return nil
}

func vTACfg(rng *rand.Rand, m *verifgen.Machine) (*cfgapi.TopologyAwarePolicy, string) {
	cfg := &cfgapi.TopologyAwarePolicy{}
	cfg.Name = "default"
	c := &cfg.Spec.Config
	c.PinCPU, c.PinMemory = true, true
	c.ReservedResources = tacfg.Constraints{}
	c.AvailableResources = tacfg.Constraints{}
	desc := []string{}
	if rng.Intn(8) == 0 {
		c.PinCPU = false
		desc = append(desc, "pincpu=0")
	}
	if rng.Intn(8) == 0 {
		c.PinMemory = false
		desc = append(desc, "pinmem=0")
	}
	iso := map[int]bool{}
	for _, id := range m.Isolated() {
		iso[id] = true
	}
	var nonIso []int
	for _, id := range m.Online() {
		if !iso[id] {
			nonIso = append(nonIso, id)
		}
	}
	if rng.Intn(2) == 0 || len(nonIso) == 0 {
		c.ReservedResources[tacfg.CPU] = "750m"
		desc = append(desc, "reserved=750m")
	} else {
		r := nonIso[rng.Intn(len(nonIso))]
		c.ReservedResources[tacfg.CPU] = policycfg.Amount("cpuset:" + strconv.Itoa(r))
		desc = append(desc, "reserved=cpuset:"+strconv.Itoa(r))
	}
	if rng.Intn(3) == 0 {
		c.ReservedPoolNamespaces = []string{"reserved-*"}
		desc = append(desc, "reservedns=reserved-*")
	}
	// now and then the policy may use all online CPUs but one (a kernel-isolated one where the machine has any): pools, grants
	// and pins must then stay inside the available CPUs
	if online := m.Online(); len(online) > 3 && rng.Intn(4) == 0 {
		drop := -1
		if isoL := m.Isolated(); len(isoL) > 0 && rng.Intn(3) != 0 {
			drop = isoL[rng.Intn(len(isoL))]
		} else {
			drop = online[rng.Intn(len(online))]
		}
		if string(c.ReservedResources[tacfg.CPU]) != "cpuset:"+strconv.Itoa(drop) {
			ids := []string{}
			for _, id := range online {
				if id != drop {
					ids = append(ids, strconv.Itoa(id))
				}
			}
			c.AvailableResources[tacfg.CPU] = policycfg.Amount("cpuset:" + strings.Join(ids, ","))
			desc = append(desc, "available-without="+strconv.Itoa(drop))
		}
	}
	if len(desc) == 0 {
		desc = []string{"default"}
	}
	return cfg, strings.Join(desc, ";")
}

// vNewHarness builds a resource manager on a generated machine. stateDir may be reused for restarts.
func vNewHarness(t *testing.T, m *verifgen.Machine, root, stateDir, polName string, cfg cfgapi.ResmgrConfig) (*vHarness, error) {
	if err := m.Render(filepath.Join(root, "sys")); err != nil {
		t.Fatal(err)
	}
	sysfs.SetSysRoot(root)
	opt.StateDir = stateDir
	opt.HostRoot = ""
	var backend policy.Backend
	var cfgIf agent.ConfigInterface
	switch polName {
	case "balloons":
		backend, cfgIf = balloons.New(), agent.BalloonsConfigInterface()
	default:
		backend, cfgIf = topologyaware.New(), agent.TopologyAwareConfigInterface()
	}
	agt, err := agent.New(cfgIf, agent.WithConfigFile(filepath.Join(root, "cfg.yaml")))
	if err != nil {
		return nil, fmt.Errorf("agent: %w", err)
	}
	rm := &resmgr{agent: agt}
	if err := rm.setupCache(); err != nil {
		return nil, err
	}
	rm.nri, _ = newNRIPlugin(rm)
	if err := rm.setupPolicy(backend); err != nil {
		return nil, err
	}
	if err := rm.setupEventProcessing(); err != nil {
		return nil, err
	}
	if err := rm.setupControllers(); err != nil {
		return nil, err
	}
	rm.cfg = cfg
	mCfg := cfg.CommonConfig()
	rm.cache.ConfigureRDTControl(mCfg.Control.RDT.Enable)
	rm.cache.ConfigureBlockIOControl(mCfg.Control.BlockIO.Enable)
	st := &vStub{}
	rm.nri.stub = st
	if err := rm.policy.Start(cfg.PolicyConfig()); err != nil {
		return nil, fmt.Errorf("policy start: %w", err)
	}
	rm.running = true
	return &vHarness{m: rm, stub: st, backend: backend, dir: root, polName: polName, t: t, mach: m, stateDir: stateDir, cfgv: cfg}, nil
}

// ---- canonical rendering

func vOptS(s string) string {
	if s == "" {
		return "-"
	}
	// kernel list format uses ',' which is also our list separator: encode it
	return strings.ReplaceAll(s, ",", "~")
}

func vRes(r *api.LinuxResources) string {
	f := []string{"-", "-", "-", "-", "-", "-", "-"}
	if r != nil {
		if c := r.Cpu; c != nil {
			f[0], f[1] = vOptS(c.Cpus), vOptS(c.Mems)
			if c.Shares != nil {
				f[2] = strconv.FormatUint(c.Shares.Value, 10)
			}
			if c.Quota != nil {
				f[3] = strconv.FormatInt(c.Quota.Value, 10)
			}
			if c.Period != nil {
				f[4] = strconv.FormatUint(c.Period.Value, 10)
			}
		}
		if m := r.Memory; m != nil {
			if m.Limit != nil {
				f[5] = strconv.FormatInt(m.Limit.Value, 10)
			}
			if m.Swap != nil {
				f[6] = strconv.FormatInt(m.Swap.Value, 10)
			}
		}
	}
	return strings.Join(f, "|")
}

func vAdjust(a *api.ContainerAdjustment) string {
	if a == nil {
		return "nil"
	}
	return vRes(a.GetLinux().GetResources())
}

func vUpdates(us []*api.ContainerUpdate) string {
	if len(us) == 0 {
		return "-"
	}
	parts := []string{}
	for _, u := range us {
		parts = append(parts, u.ContainerId+"="+vRes(u.GetLinux().GetResources()))
	}
	sort.Strings(parts)
	return strings.Join(parts, ",")
}

// vMergeUpdates folds the updates collected later into the earlier ones (per container, field by field, later wins): the
// harness' own satisfiability probes write to the cache after Synchronize has replied; what they left pending is what the
// runtime would be told with the next reply, and is delivered to the driver with this one
func vMergeUpdates(first, later []*api.ContainerUpdate) []*api.ContainerUpdate {
	byID := map[string]*api.ContainerUpdate{}
	out := []*api.ContainerUpdate{}
	for _, u := range first {
		byID[u.ContainerId] = u
		out = append(out, u)
	}
	for _, u := range later {
		o, ok := byID[u.ContainerId]
		if !ok {
			byID[u.ContainerId] = u
			out = append(out, u)
			continue
		}
		lr := u.GetLinux().GetResources()
		if lr == nil {
			continue
		}
		if o.Linux == nil {
			o.Linux = &api.LinuxContainerUpdate{}
		}
		if o.Linux.Resources == nil {
			o.Linux.Resources = &api.LinuxResources{}
		}
		or := o.Linux.Resources
		if c := lr.Cpu; c != nil {
			if or.Cpu == nil {
				or.Cpu = &api.LinuxCPU{}
			}
			if c.Cpus != "" {
				or.Cpu.Cpus = c.Cpus
			}
			if c.Mems != "" {
				or.Cpu.Mems = c.Mems
			}
			if c.Shares != nil {
				or.Cpu.Shares = c.Shares
			}
			if c.Quota != nil {
				or.Cpu.Quota = c.Quota
			}
			if c.Period != nil {
				or.Cpu.Period = c.Period
			}
		}
		if m := lr.Memory; m != nil {
			if or.Memory == nil {
				or.Memory = &api.LinuxMemory{}
			}
			if m.Limit != nil {
				or.Memory.Limit = m.Limit
			}
			if m.Swap != nil {
				or.Memory.Swap = m.Swap
			}
		}
	}
	return out
}

func vZeroDash(v int64) string {
	if v == 0 {
		return "-"
	}
	return strconv.FormatInt(v, 10)
}

// vCacheView: every cached container with its state and recorded resources.
func (h *vHarness) vCacheView() string {
	parts := []string{}
	for _, c := range h.m.cache.GetContainers() {
		pending := "0"
		if len(c.GetPending()) > 0 {
			pending = "1"
		}
		parts = append(parts, fmt.Sprintf("%s:%d:%s|%s|%s|%s|%s|%s|%s:%s", c.GetID(), int(c.GetState()),
			vOptS(c.GetCpusetCpus()), vOptS(c.GetCpusetMems()), vZeroDash(c.GetCPUShares()), vZeroDash(c.GetCPUQuota()),
			vZeroDash(c.GetCPUPeriod()), vZeroDash(c.GetMemoryLimit()), vZeroDash(c.GetMemorySwap()), pending))
	}
	sort.Strings(parts)
	if len(parts) == 0 {
		return "-"
	}
	return strings.Join(parts, ",")
}

func (h *vHarness) vSnapshot(w *bufio.Writer) {
	switch h.polName {
	case "balloons":
		for _, l := range balloons.VerifSnapshot(h.backend) {
			if strings.HasPrefix(l, "BL ") || strings.HasPrefix(l, "BD ") {
				if h.treePrinted {
					continue // the CPU tree and the balloon types are static: printed with the first snapshot only
				}
			}
			fmt.Fprintln(w, l)
		}
		h.treePrinted = true
	default:
		for _, l := range topologyaware.VerifSnapshot(h.backend) {
			fmt.Fprintln(w, l)
		}
	}
}

// ---- workload model

type vPod struct {
	id, name, ns, qos string
	ann            map[string]string
	announced      bool // the runtime has told the plugin about the pod: its annotations are fixed from then on
}

type vCtr struct {
	id, name string
	pod      *vPod
	milli    int64 // CPU request
	limit    int64 // CPU limit (milli), 0 = none
	mem      int64 // memory limit, 0 = none
	baseMems string // cpuset.mems the runtime created the container with ("" = none)
	swapK    int   // memory+swap limit: 0 none, 1 equal to the memory limit (no swap), 2 larger (limited swap)
	state    api.ContainerState
}

func (p *vPod) nri() *api.PodSandbox {
	parent := "/kubepods/pod" + p.id
	switch p.qos {
	case "Burstable":
		parent = "/kubepods/burstable/pod" + p.id
	case "BestEffort":
		parent = "/kubepods/besteffort/pod" + p.id
	}
	return &api.PodSandbox{Id: p.id, Uid: "uid-" + p.id, Name: p.name, Namespace: p.ns, Annotations: p.ann,
		Linux: &api.LinuxPodSandbox{CgroupParent: parent}}
}

func (c *vCtr) nri() *api.Container {
	res := &api.LinuxResources{Cpu: &api.LinuxCPU{}, Memory: &api.LinuxMemory{}}
	switch c.pod.qos {
	case "BestEffort":
		res.Cpu.Shares = api.UInt64(2)
	default:
		res.Cpu.Shares = api.UInt64(kubernetes.MilliCPUToShares(c.milli))
	}
	lim := c.limit
	if c.pod.qos == "Guaranteed" {
		lim = c.milli
	}
	if lim > 0 {
		q, p := kubernetes.MilliCPUToQuota(lim)
		res.Cpu.Quota, res.Cpu.Period = api.Int64(q), api.UInt64(uint64(p))
	}
	if c.baseMems != "" {
		res.Cpu.Mems = c.baseMems
	}
	if c.mem > 0 {
		res.Memory.Limit = api.Int64(c.mem)
		switch c.swapK {
		case 1:
			res.Memory.Swap = api.Int64(c.mem)
		case 2:
			res.Memory.Swap = api.Int64(c.mem + c.mem/2)
		}
	}
	oom := int64(1000)
	switch c.pod.qos {
	case "Guaranteed":
		oom = -997
	case "Burstable":
		oom = 900
	}
	return &api.Container{Id: c.id, PodSandboxId: c.pod.id, Name: c.name, State: c.state,
		Linux: &api.LinuxContainer{Resources: res, OomScoreAdj: &api.OptionalInt{Value: oom}}}
}

// effective per-container annotation (container form, pod form, bare key) as T / F / - / other
func (c *vCtr) eff(key string) string {
	for _, k := range []string{key + "/container." + c.name, key + "/pod", key} {
		if v, ok := c.pod.ann[k]; ok {
			switch v {
			case "true":
				return "T"
			case "false":
				return "F"
			}
			return "x"
		}
	}
	return "-"
}

func (c *vCtr) spec() string {
	flags := fmt.Sprintf("sh=%s;iso=%s;pc=%s;pm=%s;rs=%s", c.eff("prefer-shared-cpus."+vKey), c.eff("prefer-isolated-cpus."+vKey),
		c.eff("cpu.preserve."+vKey), c.eff("memory.preserve."+vKey), c.eff("prefer-reserved-cpus."+vKey))
	return fmt.Sprintf("%s:%s:%s:%s:%d:%d:%d:%s", c.id, c.pod.id, c.pod.ns, c.pod.qos, c.milli, c.limit, c.mem, flags)
}

var vKey = "resource-policy.nri.io"

func vGenPod(rng *rand.Rand, n int) *vPod {
	qos := []string{"Guaranteed", "Guaranteed", "Burstable", "Burstable", "BestEffort"}[rng.Intn(5)]
	ns := []string{"default", "default", "prod", "kube-system", "reserved-x"}[rng.Intn(5)]
	p := &vPod{id: fmt.Sprintf("p%d", n), name: fmt.Sprintf("pod%d", n), ns: ns, qos: qos, ann: map[string]string{}}
	switch rng.Intn(14) {
	case 0:
		p.ann["prefer-shared-cpus."+vKey+"/pod"] = "true"
	case 1:
		p.ann["prefer-isolated-cpus."+vKey+"/pod"] = "true"
	case 2:
		p.ann["cpu.preserve."+vKey+"/pod"] = "true"
	case 3:
		p.ann["memory.preserve."+vKey+"/pod"] = "true"
	case 4:
		p.ann["prefer-reserved-cpus."+vKey+"/pod"] = "true"
	case 5:
		p.ann["cpu.preserve."+vKey] = "true"
	case 6:
		p.ann["memory-type."+vKey+"/pod"] = "dram"
	case 7:
		p.ann["prefer-shared-cpus."+vKey+"/pod"] = "false"
	case 8:
		p.ann["prefer-isolated-cpus."+vKey+"/pod"] = "false"
	}
	if rng.Intn(8) == 0 {
		// container affinity / anti-affinity (simple and full notation); influences placement only
		p.ann[vKey+"/"+[]string{"affinity", "anti-affinity"}[rng.Intn(2)]] = []string{
			fmt.Sprintf("ctr%d: [ ctr%d ]", n*3, n*3+1),
			fmt.Sprintf("ctr%d:\n- scope:\n    key: pod/namespace\n    operator: Equals\n    values: [ %s ]\n  match:\n    key: pod/qosclass\n    operator: In\n    values: [ Guaranteed, Burstable ]\n  weight: %d\n", rng.Intn(20), p.ns, 1+rng.Intn(50)),
		}[rng.Intn(2)]
	}
	if vBalloonAnn {
		switch rng.Intn(10) {
		case 0:
			p.ann["balloon.balloons."+vKey] = []string{"dyn", "fixed", "default", "nosuch"}[rng.Intn(4)]
		case 1:
			p.ann["hide-hyperthreads."+vKey+"/pod"] = []string{"true", "false"}[rng.Intn(2)]
		}
	}
	// annotations consumed while the container is inserted into the cache (class assignment,
	// topology hints): they exercise cache code that runs before the policy sees the container
	if rng.Intn(5) == 0 {
		p.ann[[]string{"rdtclass." + vKey + "/pod", "rdtclass." + vKey, "blockioclass." + vKey + "/pod", "blockioclass." + vKey}[rng.Intn(4)]] = []string{"gold", "silver", "slow"}[rng.Intn(3)]
	}
	if rng.Intn(12) == 0 {
		p.ann["topologyhints."+vKey+"/pod"] = []string{"false", "true"}[rng.Intn(2)]
	}
	return p
}

func vGenCtr(rng *rand.Rand, p *vPod, n int, machineCPUs int) *vCtr {
	c := &vCtr{id: fmt.Sprintf("c%d", n), name: fmt.Sprintf("ctr%d", n), pod: p, swapK: n % 3}
	millis := []int64{100, 250, 500, 999, 1000, 1001, 1500, 2000, 2500, 3000, 4000}
	c.milli = millis[rng.Intn(len(millis))]
	if rng.Intn(6) == 0 {
		c.milli = int64(1+rng.Intn(machineCPUs)) * 1000
	}
	if p.qos == "Burstable" && rng.Intn(2) == 0 {
		c.limit = c.milli * 2
	}
	if p.qos != "BestEffort" || rng.Intn(3) == 0 {
		c.mem = int64(1+rng.Intn(64)) << 26 // 64M .. 4G
		if rng.Intn(10) == 0 {
			c.mem = int64(1+rng.Intn(8)) << 33 // large: drives zones into overcommit handling
		}
	}
	if rng.Intn(20) == 0 && !p.announced {
		p.ann["cpu.preserve."+vKey+"/container."+c.name] = "true"
	}
	if rng.Intn(20) == 0 && !p.announced {
		p.ann["memory.preserve."+vKey+"/container."+c.name] = "true"
		if len(vMemNodes) > 0 && rng.Intn(2) == 0 {
			c.baseMems = strconv.Itoa(vMemNodes[rng.Intn(len(vMemNodes))])
		}
	}
	if vMemHeavy && len(vNodeMem) > 0 {
		// memory-pressure histories: requests sized relative to a NUMA node, so that zones get
		// overcommitted and the allocator moves other containers' allocations to wider zones
		if rng.Intn(3) != 0 {
			c.mem = vNodeMem[rng.Intn(len(vNodeMem))] * int64(30+rng.Intn(45)) / 100
			if p.qos == "BestEffort" && !p.announced {
				p.qos = "Burstable" // (memory requests/limits make the pod Burstable)
			}
		}
		if rng.Intn(3) == 0 && !p.announced {
			if len(vMemNodes) > 0 && rng.Intn(2) == 0 {
				c.baseMems = strconv.Itoa(vMemNodes[rng.Intn(len(vMemNodes))])
			}
			p.ann["memory.preserve."+vKey+"/container."+c.name] = "true"
		}
	}
	return c
}

// per-history generator mode (set by TestVerifTAHistories)
var (
	vMemHeavy bool
	vMemNodes []int // ids of the memory nodes of the current machine
	vNodeMem  []int64
	vRestarts bool // histories with plugin restarts (C11)
	vBalloonAnn bool // pods may carry balloons-policy annotations (balloon type, hide-hyperthreads)
	vCfgChanges bool // histories with invalid and changed configuration updates (C13)
)

// vMutateCfg derives an invalid configuration (kind "bad:…", must be rejected) or a valid changed one (kind "change:…")
// from the configuration in force. desc describes the new configuration in the H-line syntax.
func vMutateCfg(rng *rand.Rand, cur cfgapi.ResmgrConfig, m *verifgen.Machine) (cfgapi.ResmgrConfig, string, string) {
	online := m.Online()
	switch c := cur.(type) {
	case *cfgapi.TopologyAwarePolicy:
		n := c.DeepCopy()
		o := &n.Spec.Config
		if o.AvailableResources == nil {
			o.AvailableResources = tacfg.Constraints{}
		}
		if o.ReservedResources == nil {
			o.ReservedResources = tacfg.Constraints{}
		}
		kind := ""
		if rng.Intn(2) == 0 {
			switch rng.Intn(5) {
			case 0:
				o.AvailableResources[tacfg.CPU] = "cpuset:0-x"
				kind = "bad:available-unparsable"
			case 1:
				o.ReservedResources[tacfg.CPU] = "cpuset:,,"
				kind = "bad:reserved-unparsable"
			case 2:
				delete(o.ReservedResources, tacfg.CPU)
				kind = "bad:no-reservation"
			case 3:
				if len(online) >= 2 {
					o.AvailableResources[tacfg.CPU] = policycfg.Amount("cpuset:" + strconv.Itoa(online[0]))
					o.ReservedResources[tacfg.CPU] = policycfg.Amount("cpuset:" + strconv.Itoa(online[len(online)-1]))
					kind = "bad:reserved-outside-available"
				}
			case 4:
				o.ReservedResources[tacfg.CPU] = "999"
				kind = "bad:unsatisfiable-reservation"
			}
			if kind != "" {
				// a rejected update usually differs from the active configuration in more than the offending piece:
				// every second one also flips behavioural options, which must not leak either
				if rng.Intn(2) == 0 {
					switch rng.Intn(4) {
					case 0:
						o.PinCPU, o.PinMemory = !o.PinCPU, !o.PinMemory
					case 1:
						o.PinMemory = !o.PinMemory
					case 2:
						o.ColocatePods, o.ColocateNamespaces = !o.ColocatePods, !o.ColocateNamespaces
					default:
						if len(o.ReservedPoolNamespaces) == 0 {
							o.ReservedPoolNamespaces = []string{"reserved-*"}
						} else {
							o.ReservedPoolNamespaces = nil
						}
					}
					kind += "+options"
				}
				return n, kind, "-"
			}
		}
		switch rng.Intn(4) {
		case 0:
			o.PinCPU = !o.PinCPU
			kind = "change:pincpu"
		case 1:
			o.PinMemory = !o.PinMemory
			kind = "change:pinmem"
		case 2:
			if len(o.ReservedPoolNamespaces) == 0 {
				o.ReservedPoolNamespaces = []string{"reserved-*"}
			} else {
				o.ReservedPoolNamespaces = nil
			}
			kind = "change:reservedns"
		default:
			o.ColocatePods = !o.ColocatePods
			kind = "change:colocatepods"
		}
		desc := []string{}
		if !o.PinCPU {
			desc = append(desc, "pincpu=0")
		}
		if !o.PinMemory {
			desc = append(desc, "pinmem=0")
		}
		desc = append(desc, "reserved="+string(o.ReservedResources[tacfg.CPU]))
		if len(o.ReservedPoolNamespaces) > 0 {
			desc = append(desc, "reservedns=reserved-*")
		}
		return n, kind, strings.Join(desc, ";")
	case *cfgapi.BalloonsPolicy:
		n := c.DeepCopy()
		o := &n.Spec.Config
		kind := ""
		if rng.Intn(2) == 0 {
			switch rng.Intn(6) {
			case 0:
				o.BalloonDefs = append(o.BalloonDefs, o.BalloonDefs[0].DeepCopy())
				kind = "bad:duplicate-type"
			case 1:
				o.BalloonDefs[0].MinCpus, o.BalloonDefs[0].MaxCpus = 3, 2
				kind = "bad:min-above-max-cpus"
			case 2:
				o.BalloonDefs[0].MinBalloons, o.BalloonDefs[0].MaxBalloons = 3, 1
				kind = "bad:min-above-max-balloons"
			case 3:
				o.BalloonDefs[0].Loads = []string{"nosuchload"}
				kind = "bad:undefined-load-class"
			case 4:
				o.AvailableResources = bcfg.Constraints{policycfg.CPU: "cpuset:0-x"}
				kind = "bad:available-unparsable"
			case 5:
				o.BalloonDefs[0].MinBalloons, o.BalloonDefs[0].MaxBalloons, o.BalloonDefs[0].MinCpus, o.BalloonDefs[0].MaxCpus = len(online)+1, 0, 1, 0
				kind = "bad:unsatisfiable-capacity"
			}
			if rng.Intn(2) == 0 {
				t, f := true, false
				switch rng.Intn(5) {
				case 3: // ... or carries, next to its defect, a valid but different reservation
					if kind != "bad:available-unparsable" {
						o.ReservedResources = bcfg.Constraints{policycfg.CPU: policycfg.Amount("cpuset:" + strconv.Itoa(online[len(online)-1]))}
					}
				case 4: // ... or a valid but smaller set of available CPUs
					if kind != "bad:available-unparsable" && len(online) > 2 {
						ids := []string{}
						for _, id := range online[:len(online)-1] {
							ids = append(ids, strconv.Itoa(id))
						}
						o.AvailableResources = bcfg.Constraints{policycfg.CPU: policycfg.Amount("cpuset:" + strings.Join(ids, ","))}
					}
				case 0:
					if o.PinCPU != nil && !*o.PinCPU {
						o.PinCPU = &t
					} else {
						o.PinCPU = &f
					}
				case 1:
					if o.PinMemory != nil && !*o.PinMemory {
						o.PinMemory = &t
					} else {
						o.PinMemory = &f
					}
				default:
					o.ReservedPoolNamespaces = append(o.ReservedPoolNamespaces, "default", "prod")
				}
				kind += "+options"
			}
			return n, kind, "-"
		}
		d := o.BalloonDefs[rng.Intn(len(o.BalloonDefs))]
		switch rng.Intn(5) {
		case 0:
			d.MaxCpus = []int{0, 2, 4}[rng.Intn(3)]
			if d.MaxCpus != 0 && d.MinCpus > d.MaxCpus {
				d.MinCpus = d.MaxCpus
			}
			kind = "change:maxcpus"
		case 1:
			d.ShareIdleCpusInSame = []bcfg.CPUTopologyLevel{"", "system", "package", "numa"}[rng.Intn(4)]
			kind = "change:sharelevel"
		case 2:
			o.IdleCpuClass = o.IdleCpuClass + "x"
			kind = "change:idleclass-only"
		case 3:
			t := d.HideHyperthreads == nil || !*d.HideHyperthreads
			d.HideHyperthreads = &t
			kind = "change:hideht"
		default:
			d.CpuClass = d.CpuClass + "y"
			kind = "change:cpuclass-only"
		}
		return n, kind, "changed"
	}
	return cur, "same", "-"
}

func vPodKeys(wd *vWorld) []string {
	pk := []string{}
	for k := range wd.pods {
		pk = append(pk, k)
	}
	sort.Strings(pk)
	return pk
}

// ---- event execution

type vWorld struct {
	pods map[string]*vPod
	ctrs map[string]*vCtr
	nPod int
	nCtr int
}

func vSafe(fn func() string) (res string) {
	defer func() {
		if r := recover(); r != nil {
			res = "panic " + vOneWord(fmt.Sprint(r))
		}
	}()
	return fn()
}

func vErr(err error) string {
	if err != nil {
		return "err " + vOneWord(err.Error())
	}
	return "ok"
}

func (h *vHarness) vPushed() string {
	if len(h.stub.pushed) == 0 {
		return "-"
	}
	parts := []string{}
	for _, b := range h.stub.pushed {
		parts = append(parts, strings.ReplaceAll(vUpdates(b), ",", ";"))
	}
	h.stub.pushed = nil
	return strings.Join(parts, "#")
}

func (h *vHarness) vAfter(w *bufio.Writer) {
	pods := []string{}
	for _, p := range h.m.cache.GetPods() {
		pods = append(pods, p.GetID())
	}
	sort.Strings(pods)
	if len(pods) == 0 {
		pods = []string{"-"}
	}
	fmt.Fprintf(w, "VP %s\n", strings.Join(pods, ","))
	fmt.Fprintf(w, "V %s\n", h.vCacheView())
	h.vSnapshot(w)
}

// vRootFreeMilli: shared CPU capacity the topology-aware root pool can still promise (1000 per free sharable CPU
// minus what is granted in its subtree); -1 if unknown
func (h *vHarness) vRootFreeMilli() int {
	for _, l := range topologyaware.VerifSnapshot(h.backend) {
		f := strings.Fields(l)
		if len(f) == 12 && f[0] == "PN" && f[2] == "-" {
			n := 0
			if f[7] != "-" {
				n = len(strings.Split(f[7], "+"))
			}
			ss, err := strconv.Atoi(f[10])
			if err != nil {
				return -1
			}
			return 1000*n - ss
		}
	}
	return -1
}

func (h *vHarness) createCtr(w *bufio.Writer, c *vCtr) string {
	ctx := context.Background()
	c.state = api.ContainerState_CONTAINER_CREATED
	nc := c.nri()
	nc.State = api.ContainerState_CONTAINER_CREATED
	fmt.Fprintf(w, "E create %s %s\n", c.spec(), vRes(nc.Linux.Resources))
	r := vSafe(func() string {
		adj, upd, err := h.m.nri.CreateContainer(ctx, c.pod.nri(), nc)
		if err != nil {
			return vErr(err)
		}
		return "ok " + vAdjust(adj) + " " + vUpdates(upd)
	})
	fmt.Fprintf(w, "R %s\n", r)
	h.vAfter(w)
	return r
}

func (h *vHarness) simple(w *bufio.Writer, ev string, fn func() ([]*api.ContainerUpdate, error)) string {
	fmt.Fprintf(w, "E %s\n", ev)
	r := vSafe(func() string {
		upd, err := fn()
		if err != nil {
			return vErr(err)
		}
		return "ok - " + vUpdates(upd)
	})
	fmt.Fprintf(w, "R %s\n", r)
	h.vAfter(w)
	return r
}

// vRunHistory generates and executes one history; returns the world for follow-up phases.
func (h *vHarness) vRunHistory(w *bufio.Writer, rng *rand.Rand, wd *vWorld, nEvents, machineCPUs int, malformed bool) {
	ctx := context.Background()
	live := func() []*vCtr {
		var l []*vCtr
		for _, c := range wd.ctrs {
			l = append(l, c)
		}
		sort.Slice(l, func(i, j int) bool { return l[i].id < l[j].id })
		return l
	}
	if vMemHeavy && len(vNodeMem) > 0 && !malformed {
		// prelude of memory-pressure histories: an opted-out (memory.preserve) low-priority container, then
		// containers that together overcommit every zone, so that the allocator has to move allocations
		big := int64(0)
		for _, m := range vNodeMem {
			if m > big {
				big = m
			}
		}
		mk := func(qos string, mem int64, preserve bool) {
			p := vGenPod(rng, wd.nPod)
			wd.nPod++
			p.qos, p.ns = qos, "default"
			for k := range p.ann {
				delete(p.ann, k)
			}
			wd.pods[p.id] = p
			c := vGenCtr(rng, p, wd.nCtr, machineCPUs)
			wd.nCtr++
			for k := range p.ann {
				delete(p.ann, k)
			}
			c.mem, c.milli, c.limit = mem, 100, 0
			c.baseMems = ""
			if preserve {
				p.ann["memory.preserve."+vKey+"/container."+c.name] = "true"
				// half of them come with a memory set of their own (the value to be preserved)
				if len(vMemNodes) > 0 && rng.Intn(2) == 0 {
					c.baseMems = strconv.Itoa(vMemNodes[rng.Intn(len(vMemNodes))])
				}
			}
			wd.ctrs[c.id] = c
			p.announced = true
			h.simple(w, "runpod "+p.id+" "+p.ns+" "+p.qos, func() ([]*api.ContainerUpdate, error) { return nil, h.m.nri.RunPodSandbox(ctx, p.nri()) })
			if res := h.createCtr(w, c); !strings.HasPrefix(res, "ok") {
				h.simple(w, "remove "+c.id, func() ([]*api.ContainerUpdate, error) { return nil, h.m.nri.RemoveContainer(ctx, c.pod.nri(), c.nri()) })
				delete(wd.ctrs, c.id)
				return
			}
			c.state = api.ContainerState_CONTAINER_RUNNING
			h.simple(w, "start "+c.id, func() ([]*api.ContainerUpdate, error) { return nil, h.m.nri.StartContainer(ctx, c.pod.nri(), c.nri()) })
			if preserve && rng.Intn(2) == 0 {
				// a real resource change of the opted-out container before the pressure builds up: it is re-allocated through the
				// update path (with a pool hint), and must come out of it as opted-out as it went in
				c.milli = []int64{300, 700}[rng.Intn(2)]
				nc := c.nri()
				h.simple(w, "update "+c.spec()+" "+vRes(nc.Linux.Resources), func() ([]*api.ContainerUpdate, error) {
					return h.m.nri.UpdateContainer(ctx, c.pod.nri(), nc, nc.Linux.Resources)
				})
			}
		}
		for i := 0; i < 1+rng.Intn(2); i++ {
			mk("Burstable", big*int64(5+rng.Intn(20))/100, true)
		}
		for i := 0; i < len(vNodeMem)+1; i++ {
			mk([]string{"Guaranteed", "Burstable"}[rng.Intn(2)], big*int64(45+rng.Intn(30))/100, false)
		}
	}
	for i := 0; i < nEvents; i++ {
		r := rng.Intn(100)
		cs := live()
		switch {
		case r < 40 || len(cs) == 0: // create (in a new or existing pod)
			var p *vPod
			if len(wd.pods) > 0 && rng.Intn(3) == 0 {
				keys := []string{}
				for k := range wd.pods {
					keys = append(keys, k)
				}
				sort.Strings(keys)
				p = wd.pods[keys[rng.Intn(len(keys))]]
			} else {
				p = vGenPod(rng, wd.nPod)
				wd.nPod++
				wd.pods[p.id] = p
			}
			// capacity squeeze (topology-aware): now and then fill the machine's shared capacity up to a remainder between one
			// and one and a half CPUs, then ask for a mixed grant (1 exclusive CPU + 500m): the exclusive CPU can be sliced off
			// but the fraction does not fit any more - the request must fail without leaving a trace
			squeeze := false
			if h.polName == "topology-aware" && !malformed && rng.Intn(10) == 0 {
				if free := h.vRootFreeMilli(); free >= 2600 {
					fp := &vPod{id: fmt.Sprintf("p%d", wd.nPod), name: fmt.Sprintf("pod%d", wd.nPod), ns: "default", qos: "Burstable", ann: map[string]string{}, announced: true}
					wd.nPod++
					wd.pods[fp.id] = fp
					fc := &vCtr{id: fmt.Sprintf("c%d", wd.nCtr), name: fmt.Sprintf("ctr%d", wd.nCtr), pod: fp, milli: int64(free - 1100 - rng.Intn(390))}
					wd.nCtr++
					wd.ctrs[fc.id] = fc
					h.simple(w, "runpod "+fp.id+" "+fp.ns+" "+fp.qos, func() ([]*api.ContainerUpdate, error) { return nil, h.m.nri.RunPodSandbox(ctx, fp.nri()) })
					if res := h.createCtr(w, fc); strings.HasPrefix(res, "ok") {
						squeeze = true
						// (the pod chosen above is replaced: if it was generated for this step and never announced, it must not
						// linger in the runtime's world - a later Synchronize would list a pod no RunPodSandbox event introduced)
						if !p.announced {
							delete(wd.pods, p.id)
						}
						p = &vPod{id: fmt.Sprintf("p%d", wd.nPod), name: fmt.Sprintf("pod%d", wd.nPod), ns: "default", qos: "Guaranteed", ann: map[string]string{}}
						wd.nPod++
						wd.pods[p.id] = p
					} else {
						h.simple(w, "remove "+fc.id, func() ([]*api.ContainerUpdate, error) { return nil, h.m.nri.RemoveContainer(ctx, fc.pod.nri(), fc.nri()) })
						delete(wd.ctrs, fc.id)
					}
				}
			}
			c := vGenCtr(rng, p, wd.nCtr, machineCPUs)
			if squeeze {
				c.milli, c.limit, c.mem = 1500, 0, 0
			}
			wd.nCtr++
			wd.ctrs[c.id] = c
			if !p.announced {
				p.announced = true
				h.simple(w, "runpod "+p.id+" "+p.ns+" "+p.qos, func() ([]*api.ContainerUpdate, error) {
					return nil, h.m.nri.RunPodSandbox(ctx, p.nri())
				})
			}
			res := h.createCtr(w, c)
			if !strings.HasPrefix(res, "ok") {
				// the runtime undoes a refused creation
				if rng.Intn(2) == 0 {
					h.simple(w, "stop "+c.id, func() ([]*api.ContainerUpdate, error) { return h.m.nri.StopContainer(ctx, c.pod.nri(), c.nri()) })
				}
				h.simple(w, "remove "+c.id, func() ([]*api.ContainerUpdate, error) { return nil, h.m.nri.RemoveContainer(ctx, c.pod.nri(), c.nri()) })
				delete(wd.ctrs, c.id)
			} else if rng.Intn(4) != 0 {
				c.state = api.ContainerState_CONTAINER_RUNNING
				h.simple(w, "start "+c.id, func() ([]*api.ContainerUpdate, error) { return nil, h.m.nri.StartContainer(ctx, c.pod.nri(), c.nri()) })
			}
		case r < 60: // stop + remove
			c := cs[rng.Intn(len(cs))]
			c.state = api.ContainerState_CONTAINER_STOPPED
			h.simple(w, "stop "+c.id, func() ([]*api.ContainerUpdate, error) { return h.m.nri.StopContainer(ctx, c.pod.nri(), c.nri()) })
			if rng.Intn(5) != 0 {
				h.simple(w, "remove "+c.id, func() ([]*api.ContainerUpdate, error) { return nil, h.m.nri.RemoveContainer(ctx, c.pod.nri(), c.nri()) })
				delete(wd.ctrs, c.id)
			}
		case r < 70: // update resources
			c := cs[rng.Intn(len(cs))]
			if c.state == api.ContainerState_CONTAINER_STOPPED {
				continue
			}
			if rng.Intn(3) != 0 {
				c.milli = []int64{250, 500, 1000, 1500, 2000, 3000}[rng.Intn(6)]
			}
			nc := c.nri()
			h.simple(w, "update "+c.spec()+" "+vRes(nc.Linux.Resources), func() ([]*api.ContainerUpdate, error) {
				return h.m.nri.UpdateContainer(ctx, c.pod.nri(), nc, nc.Linux.Resources)
			})
		case r < 76: // remove without stop (runtime lost the stop event) - only in the malformed stream
			c := cs[rng.Intn(len(cs))]
			if malformed && rng.Intn(3) == 0 {
				h.simple(w, "remove "+c.id, func() ([]*api.ContainerUpdate, error) { return nil, h.m.nri.RemoveContainer(ctx, c.pod.nri(), c.nri()) })
				delete(wd.ctrs, c.id)
			}
		case r < 82: // synchronize with the runtime's current view
			var pods []*api.PodSandbox
			var ctrs []*api.Container
			pk := []string{}
			for k := range wd.pods {
				pk = append(pk, k)
			}
			sort.Strings(pk)
			for _, k := range pk {
				pods = append(pods, wd.pods[k].nri())
			}
			for _, c := range cs {
				nc := c.nri()
				nc.State = c.state
				ctrs = append(ctrs, nc)
			}
			ids := []string{}
			for _, c := range ctrs {
				ids = append(ids, fmt.Sprintf("%s/%d", c.Id, int(c.State)))
			}
			h.simple(w, "sync "+strings.Join(append([]string{"_"}, ids...), ","), func() ([]*api.ContainerUpdate, error) {
				return h.m.nri.Synchronize(ctx, pods, ctrs)
			})
		case r < 88: // stop/remove a whole pod
			pk := []string{}
			for k := range wd.pods {
				pk = append(pk, k)
			}
			if len(pk) == 0 {
				continue
			}
			sort.Strings(pk)
			p := wd.pods[pk[rng.Intn(len(pk))]]
			for _, c := range cs {
				if c.pod == p {
					c.state = api.ContainerState_CONTAINER_STOPPED
					c := c
					h.simple(w, "stop "+c.id, func() ([]*api.ContainerUpdate, error) { return h.m.nri.StopContainer(ctx, c.pod.nri(), c.nri()) })
					h.simple(w, "remove "+c.id, func() ([]*api.ContainerUpdate, error) { return nil, h.m.nri.RemoveContainer(ctx, c.pod.nri(), c.nri()) })
					delete(wd.ctrs, c.id)
				}
			}
			h.simple(w, "stoppod "+p.id, func() ([]*api.ContainerUpdate, error) { return nil, h.m.nri.StopPodSandbox(ctx, p.nri()) })
			h.simple(w, "removepod "+p.id, func() ([]*api.ContainerUpdate, error) { return nil, h.m.nri.RemovePodSandbox(ctx, p.nri()) })
			delete(wd.pods, p.id)
		case r < 92 && vRestarts: // the plugin dies and comes back; meanwhile the runtime's world moved on
			noop := func() ([]*api.ContainerUpdate, error) { return nil, nil }
			for _, c := range cs {
				c := c
				switch x := rng.Intn(10); {
				case x == 0: // removed while the plugin was down
					h.simple(w, "down-remove "+c.id, noop)
					delete(wd.ctrs, c.id)
				case x == 1 && c.state != api.ContainerState_CONTAINER_STOPPED:
					c.state = api.ContainerState_CONTAINER_STOPPED
					h.simple(w, "down-stop "+c.id, noop)
				case x == 2 && c.state == api.ContainerState_CONTAINER_CREATED:
					c.state = api.ContainerState_CONTAINER_RUNNING
					h.simple(w, "down-start "+c.id, noop)
				}
			}
			for _, k := range vPodKeys(wd) { // pods without containers removed while the plugin was down
				has := false
				for _, c := range wd.ctrs {
					if c.pod.id == k {
						has = true
					}
				}
				if !has && rng.Intn(2) == 0 {
					delete(wd.pods, k)
					h.simple(w, "down-removepod "+k, noop)
				}
			}
			if rng.Intn(3) == 0 { // a container RESTARTED while the plugin was down: the old instance is gone, a new one with the same
				// name in the same (surviving) pod has a new id (an ordinary kubelet container restart)
				lv := live()
				if len(lv) > 0 {
					c := lv[rng.Intn(len(lv))]
					h.simple(w, "down-remove "+c.id, noop)
					delete(wd.ctrs, c.id)
					c2 := *c
					c2.id = fmt.Sprintf("c%d", wd.nCtr)
					wd.nCtr++
					c2.state = []api.ContainerState{api.ContainerState_CONTAINER_CREATED, api.ContainerState_CONTAINER_RUNNING}[rng.Intn(2)]
					wd.ctrs[c2.id] = &c2
					nc := c2.nri()
					h.simple(w, "down-create "+c2.spec()+" "+vRes(nc.Linux.Resources)+" "+strconv.Itoa(int(c2.state)), noop)
				}
			}
			if rng.Intn(3) == 0 { // a container created while the plugin was down
				var p *vPod
				for _, k := range vPodKeys(wd) {
					p = wd.pods[k]
					break
				}
				if p == nil || rng.Intn(2) == 0 {
					p = vGenPod(rng, wd.nPod)
					wd.nPod++
					wd.pods[p.id] = p
				}
				c := vGenCtr(rng, p, wd.nCtr, machineCPUs)
				p.announced = true
				wd.nCtr++
				c.state = []api.ContainerState{api.ContainerState_CONTAINER_CREATED, api.ContainerState_CONTAINER_RUNNING}[rng.Intn(2)]
				wd.ctrs[c.id] = c
				nc := c.nri()
				h.simple(w, "down-create "+c.spec()+" "+vRes(nc.Linux.Resources)+" "+strconv.Itoa(int(c.state)), noop)
			}
			if rng.Intn(4) == 0 { // the plugin died in the middle of a CreateContainer: the cache was saved with the container "creating"
				var p *vPod
				for _, k := range vPodKeys(wd) {
					p = wd.pods[k]
					break
				}
				if p != nil {
					c := vGenCtr(rng, p, wd.nCtr, machineCPUs)
					wd.nCtr++
					nc := c.nri()
					h.m.cache.InsertContainer(nc, cache.WithContainerState(cache.ContainerStateCreating))
					if rng.Intn(2) == 0 { // the runtime went on and created it
						c.state = []api.ContainerState{api.ContainerState_CONTAINER_CREATED, api.ContainerState_CONTAINER_RUNNING}[rng.Intn(2)]
						wd.ctrs[c.id] = c
						h.simple(w, "down-create "+c.spec()+" "+vRes(nc.Linux.Resources)+" "+strconv.Itoa(int(c.state)), noop)
					} else {
						h.simple(w, "down-abandoned "+c.id, noop)
					}
				}
			}
			var pods []*api.PodSandbox
			var ctrs []*api.Container
			for _, k := range vPodKeys(wd) {
				pods = append(pods, wd.pods[k].nri())
			}
			ids := []string{}
			for _, c := range live() {
				nc := c.nri()
				nc.State = c.state
				ctrs = append(ctrs, nc)
				ids = append(ids, fmt.Sprintf("%s/%d", c.id, int(c.state)))
			}
			h.simple(w, "restart "+strings.Join(append([]string{"_"}, ids...), ","), func() ([]*api.ContainerUpdate, error) {
				if err := h.vRestart(); err != nil {
					return nil, err
				}
				upd, err := h.m.nri.Synchronize(ctx, pods, ctrs)
				if err == nil {
					// a live container left without resources: could it have been satisfied at all?
					granted := map[string]bool{}
					var snap []string
					if h.polName == "balloons" {
						snap = balloons.VerifSnapshot(h.backend)
					} else {
						snap = topologyaware.VerifSnapshot(h.backend)
					}
					for _, l := range snap {
						if f := strings.Fields(l); len(f) > 1 && (f[0] == "PG" || f[0] == "BC") {
							granted[f[1]] = true
						}
					}
					for _, nc := range ctrs {
						if granted[nc.Id] || (nc.State != api.ContainerState_CONTAINER_CREATED && nc.State != api.ContainerState_CONTAINER_RUNNING) {
							continue
						}
						if c, ok := h.m.cache.LookupContainer(nc.Id); ok {
							if aerr := h.m.policy.AllocateResources(c); aerr != nil {
								fmt.Fprintf(w, "X unsat %s\n", nc.Id)
							} else {
								h.m.policy.ReleaseResources(c)
								fmt.Fprintf(w, "X skipped %s\n", nc.Id)
							}
						} else {
							fmt.Fprintf(w, "X notcached %s\n", nc.Id)
						}
					}
					// whatever the probes left pending belongs to this reply (see vMergeUpdates)
					upd = vMergeUpdates(upd, h.m.nri.getPendingUpdates(nil))
				}
				return upd, err
			})
		case r >= 96 && vCfgChanges: // a configuration update: invalid (must be rejected and leave no trace) or a valid change
			newCfg, kind, desc := vMutateCfg(rng, h.m.cfg, h.mach)
			fmt.Fprintf(w, "E reconfig %s\n", kind)
			r := vSafe(func() string { return vErr(h.m.reconfigure(newCfg)) })
			if strings.HasPrefix(r, "ok") {
				h.cfgv = newCfg
				h.treePrinted = false // balloon types may have changed: print them again
				fmt.Fprintf(w, "CFG %s\n", desc)
				// containers left without resources by the change: could they have been satisfied at all?
				if h.polName != "balloons" {
					granted := map[string]bool{}
					for _, l := range topologyaware.VerifSnapshot(h.backend) {
						if f := strings.Fields(l); len(f) > 1 && f[0] == "PG" {
							granted[f[1]] = true
						}
					}
					for _, c := range cs {
						if granted[c.id] || c.state == api.ContainerState_CONTAINER_STOPPED {
							continue
						}
						if cc, ok := h.m.cache.LookupContainer(c.id); ok {
							if aerr := h.m.policy.AllocateResources(cc); aerr != nil {
								fmt.Fprintf(w, "X unsat %s\n", c.id)
							} else {
								h.m.policy.ReleaseResources(cc)
							}
						}
					}
				}
			}
			fmt.Fprintf(w, "R %s - %s\n", r, h.vPushed())
			h.vAfter(w)
		default: // re-apply the unchanged configuration
			fmt.Fprintf(w, "E reconfig same\n")
			r := vSafe(func() string { return vErr(h.m.reconfigure(h.m.cfg)) })
			fmt.Fprintf(w, "R %s - %s\n", r, h.vPushed())
			h.vAfter(w)
		}
	}
}

// vDrain stops and removes everything that is left (for the C09 quiescence comparison).
func (h *vHarness) vDrain(w *bufio.Writer, wd *vWorld) {
	ctx := context.Background()
	ids := []string{}
	for id := range wd.ctrs {
		ids = append(ids, id)
	}
	sort.Strings(ids)
	for _, id := range ids {
		c := wd.ctrs[id]
		h.simple(w, "stop "+c.id, func() ([]*api.ContainerUpdate, error) { return h.m.nri.StopContainer(ctx, c.pod.nri(), c.nri()) })
		h.simple(w, "remove "+c.id, func() ([]*api.ContainerUpdate, error) { return nil, h.m.nri.RemoveContainer(ctx, c.pod.nri(), c.nri()) })
		delete(wd.ctrs, id)
	}
	pk := []string{}
	for k := range wd.pods {
		pk = append(pk, k)
	}
	sort.Strings(pk)
	for _, k := range pk {
		p := wd.pods[k]
		h.simple(w, "stoppod "+p.id, func() ([]*api.ContainerUpdate, error) { return nil, h.m.nri.StopPodSandbox(ctx, p.nri()) })
		h.simple(w, "removepod "+p.id, func() ([]*api.ContainerUpdate, error) { return nil, h.m.nri.RemovePodSandbox(ctx, p.nri()) })
		delete(wd.pods, k)
	}
}

func vOpen(t *testing.T) (*bufio.Writer, func()) {
	out := os.Getenv("VERIF_OUT")
	if out == "" {
		t.Skip("VERIF_OUT not set")
	}
	logger.SetLevel(logger.LevelFatal)
	if os.Getenv("VERIF_LOG") == "error" {
		logger.SetLevel(logger.LevelError) // debugging aid
	}
	f, err := os.Create(out)
	if err != nil {
		t.Fatal(err)
	}
	w := bufio.NewWriterSize(f, 1<<20)
	return w, func() { w.Flush(); f.Close() }
}

func TestVerifTAHistories(t *testing.T) {
	w, done := vOpen(t)
	defer done()
	seed, _ := strconv.ParseInt(os.Getenv("VERIF_SEED"), 10, 64)
	rng := rand.New(rand.NewSource(seed + 100))
	n := 60
	if os.Getenv("VERIF_TIER") == "thorough" {
		n = 3000
	}
	if v, err := strconv.Atoi(os.Getenv("VERIF_HISTORIES")); err == nil {
		n = v
	}
	for i := 0; i < n; i++ {
		opts := verifgen.DefaultOpts()
		opts.AllowHybrid = false
		m := verifgen.Gen(rng, opts)
		cfg, desc := vTACfg(rng, m)
		root := t.TempDir()
		fmt.Fprintf(w, "H %d ta %s\n", i, desc)
		fmt.Fprintf(w, "M %s\n", m.Line())
		h, err := vNewHarness(t, m, root, filepath.Join(root, "state"), "topology-aware", cfg)
		if err != nil {
			fmt.Fprintf(w, "HERR %s\n", vOneWord(err.Error()))
			continue
		}
		fmt.Fprintf(w, "E init\nR ok - -\n")
		h.vAfter(w)
		wd := &vWorld{pods: map[string]*vPod{}, ctrs: map[string]*vCtr{}}
		vMemHeavy, vNodeMem, vMemNodes = i%2 == 1, nil, nil
		vRestarts = os.Getenv("VERIF_RESTARTS") == "1"
		vCfgChanges = os.Getenv("VERIF_CFGCHANGES") == "1"
		for _, nd := range m.Nodes {
			if nd.HasMemory && nd.MemTotal > 0 {
				vNodeMem = append(vNodeMem, int64(nd.MemTotal)*1024)
				vMemNodes = append(vMemNodes, nd.ID)
			}
		}
		h.vRunHistory(w, rng, wd, 8+rng.Intn(40), len(m.Online()), i%4 == 3)
		fmt.Fprintf(w, "Q drain\n")
		h.vDrain(w, wd)
		fmt.Fprintf(w, "Q end\n")
		w.Flush()
	}
}

// vOneWord makes a message a single token of the line protocol.
func vOneWord(s string) string {
	return strings.Map(func(r rune) rune {
		if r == ' ' || r == '\n' || r == '\t' || r == '\r' {
			return '_'
		}
		return r
	}, s)
}

// vBACfg: balloons configurations over the options the property quantifies over.
func vBACfg(rng *rand.Rand, m *verifgen.Machine) (*cfgapi.BalloonsPolicy, string) {
	cfg := &cfgapi.BalloonsPolicy{}
	cfg.Name = "default"
	c := &cfg.Spec.Config
	t, f := true, false
	c.PinCPU, c.PinMemory = &t, &t
	desc := []string{}
	if rng.Intn(8) == 0 {
		c.PinCPU = &f
		desc = append(desc, "pincpu=0")
	}
	if rng.Intn(6) == 0 {
		c.PinMemory = &f
		desc = append(desc, "pinmem=0")
	}
	c.ReservedResources = bcfg.Constraints{policycfg.CPU: "750m"}
	if rng.Intn(3) == 0 {
		c.ReservedPoolNamespaces = []string{"reserved-*"}
		desc = append(desc, "reservedns=reserved-*")
	}
	c.IdleCpuClass = "idle"
	n := len(m.Online())
	levels := []bcfg.CPUTopologyLevel{"", "system", "package", "die", "numa", "core"}
	mk := func(name string) *bcfg.BalloonDef {
		d := &bcfg.BalloonDef{Name: name, CpuClass: name + "cls"}
		d.ShareIdleCpusInSame = levels[rng.Intn(len(levels))]
		if rng.Intn(3) == 0 {
			d.HideHyperthreads = &t
		}
		d.PreferNewBalloons = rng.Intn(3) == 0
		d.PreferSpreadingPods = rng.Intn(3) == 0
		d.PreferPerNamespaceBalloon = rng.Intn(4) == 0
		if rng.Intn(4) == 0 {
			d.PreferSpreadOnPhysicalCores = &t
		}
		desc = append(desc, fmt.Sprintf("%s:share=%s,hide=%v", name, d.ShareIdleCpusInSame, d.HideHyperthreads != nil))
		return d
	}
	dyn := mk("dyn")
	dyn.Namespaces = []string{"prod"}
	dyn.MaxCpus = rng.Intn(5) // 0 = no limit
	if rng.Intn(3) == 0 {
		dyn.MinCpus = 1
	}
	if rng.Intn(3) == 0 {
		dyn.MaxBalloons = 1 + rng.Intn(3)
	}
	c.BalloonDefs = []*bcfg.BalloonDef{dyn}
	if n >= 4 && rng.Intn(3) != 0 {
		fx := mk("fixed")
		fx.MinCpus, fx.MaxCpus = 1, 1+rng.Intn(3)
		fx.MinBalloons, fx.MaxBalloons = rng.Intn(2), 1+rng.Intn(2)
		if rng.Intn(2) == 0 {
			fx.Namespaces = []string{"default"}
		}
		if rng.Intn(3) == 0 {
			fx.GroupBy = "${pod/namespace}"
		}
		c.BalloonDefs = append(c.BalloonDefs, fx)
	}
	if rng.Intn(3) == 0 {
		c.AllocatorTopologyBalancing = true
		desc = append(desc, "topobalance")
	}
	return cfg, strings.Join(desc, ";")
}

func TestVerifBAHistories(t *testing.T) {
	w, done := vOpen(t)
	defer done()
	seed, _ := strconv.ParseInt(os.Getenv("VERIF_SEED"), 10, 64)
	rng := rand.New(rand.NewSource(seed + 200))
	n := 120
	if os.Getenv("VERIF_TIER") == "thorough" {
		n = 4000
	}
	if v, err := strconv.Atoi(os.Getenv("VERIF_HISTORIES")); err == nil {
		n = v
	}
	for i := 0; i < n; i++ {
		opts := verifgen.DefaultOpts()
		opts.AllowHybrid = false
		m := verifgen.Gen(rng, opts)
		cfg, desc := vBACfg(rng, m)
		root := t.TempDir()
		fmt.Fprintf(w, "H %d ba %s\n", i, desc)
		fmt.Fprintf(w, "M %s\n", m.Line())
		h, err := vNewHarness(t, m, root, filepath.Join(root, "state"), "balloons", cfg)
		if err != nil {
			fmt.Fprintf(w, "HERR %s\n", vOneWord(err.Error()))
			continue
		}
		fmt.Fprintf(w, "E init\nR ok - -\n")
		h.vAfter(w)
		wd := &vWorld{pods: map[string]*vPod{}, ctrs: map[string]*vCtr{}}
		// every third balloons history is a memory-pressure one (zones get overcommitted, the allocator widens zones)
		vMemHeavy, vNodeMem, vMemNodes = i%3 == 1, nil, nil
		for _, nd := range m.Nodes {
			if nd.HasMemory && nd.MemTotal > 0 {
				vNodeMem = append(vNodeMem, int64(nd.MemTotal)*1024)
				vMemNodes = append(vMemNodes, nd.ID)
			}
		}
		vRestarts = os.Getenv("VERIF_RESTARTS") == "1"
		vCfgChanges = os.Getenv("VERIF_CFGCHANGES") == "1"
		vBalloonAnn = true
		h.vRunHistory(w, rng, wd, 8+rng.Intn(40), len(m.Online()), i%4 == 3)
		vBalloonAnn = false
		fmt.Fprintf(w, "Q drain\n")
		h.vDrain(w, wd)
		fmt.Fprintf(w, "Q end\n")
		w.Flush()
	}
}
