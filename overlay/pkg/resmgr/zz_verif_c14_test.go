//go:build verif

package resmgr

// C14 harness: well-formed but hostile NRI event streams through the real handlers of the
// resource manager under both policies: unknown/forgotten ids, duplicated and out-of-order
// lifecycle events, arbitrary values for every interpreted annotation, absent optional
// sub-messages. Every call is made under recover(); a probe (a plain valid lifecycle) after each
// burst shows that refused requests left the plugin able to serve later ones.

import (
	"bufio"
	"context"
	"fmt"
	"math/rand"
	"os"
	"path/filepath"
	"runtime/debug"
	"strconv"
	"strings"
	"testing"

	"github.com/containerd/nri/pkg/api"

	balloons "github.com/containers/nri-plugins/cmd/plugins/balloons/policy"
	topologyaware "github.com/containers/nri-plugins/cmd/plugins/topology-aware/policy"
	cfgapi "github.com/containers/nri-plugins/pkg/apis/config/v1alpha1"
	policycfg "github.com/containers/nri-plugins/pkg/apis/config/v1alpha1/resmgr/policy"
	bcfg "github.com/containers/nri-plugins/pkg/apis/config/v1alpha1/resmgr/policy/balloons"
	"github.com/containers/nri-plugins/pkg/resmgr/cache"
	"github.com/containers/nri-plugins/pkg/verifgen"
)

// vBalloonsCfg: a small but varied balloons configuration for a generated machine.
func vBalloonsCfg(rng *rand.Rand, m *verifgen.Machine) (*cfgapi.BalloonsPolicy, string) {
	cfg := &cfgapi.BalloonsPolicy{}
	cfg.Name = "default"
	c := &cfg.Spec.Config
	t, f := true, false
	c.PinCPU, c.PinMemory = &t, &t
	desc := []string{}
	if rng.Intn(6) == 0 {
		c.PinMemory = &f
		desc = append(desc, "pinmem=0")
	}
	c.ReservedResources = bcfg.Constraints{policycfg.CPU: "750m"}
	if rng.Intn(3) == 0 {
		c.ReservedPoolNamespaces = []string{"reserved-*"}
		desc = append(desc, "reservedns=reserved-*")
	}
	n := len(m.Online())
	max := 1 + rng.Intn(4)
	if max > n {
		max = n
	}
	c.BalloonDefs = []*bcfg.BalloonDef{
		{Name: "dyn", Namespaces: []string{"prod"}, MinCpus: 0, MaxCpus: max, PreferNewBalloons: rng.Intn(2) == 0},
	}
	desc = append(desc, "dyn.max="+strconv.Itoa(max))
	if n >= 4 && rng.Intn(2) == 0 {
		c.BalloonDefs = append(c.BalloonDefs, &bcfg.BalloonDef{Name: "fixed", MinCpus: 1, MaxCpus: 2, MinBalloons: 1, MaxBalloons: 2, PreferSpreadingPods: rng.Intn(2) == 0})
		desc = append(desc, "fixed.min=1")
	}
	if rng.Intn(3) == 0 {
		c.IdleCpuClass = ""
		c.AllocatorTopologyBalancing = true
		desc = append(desc, "topobalance")
	}
	return cfg, strings.Join(desc, ";")
}

var vAnnKeys = []string{"prefer-reserved-cpus", "prefer-cpu-priority", "hide-hyperthreads", "prefer-isolated-cpus", "prefer-shared-cpus",
	"memory-type", "cold-start", "affinity", "anti-affinity", "rdtclass", "blockioclass", "toptierlimit", "topologyhints",
	"allow.topologyhints", "deny.topologyhints", "cpu.preserve", "memory.preserve", "balloon.balloons", "pick-resources-by-hints"}

var vAnnVals = []string{"", "true", "false", "TRUE", "x", "{", "[", "]", "- a\n- b", "a: b", "a: [", "\x00", "null", "~", "0", "-1", "1e999",
	"9223372036854775808", "{\"duration\":\"5s\"}", "duration: -1s", "duration: x", "duration: 99999999h", "dram,pmem", "dram,foo", ",", "hbm",
	"ctr0: [ ctr1 ]", "ctr0:\n- scope:\n    key: pod/name\n    operator: Bogus\n    values: []\n  match:\n    key: name\n    operator: Equals\n    values: [ a, b ]\n  weight: 99999999999\n",
	"ctr0:\n- match:\n    key: ''\n    operator: In\n", "- - - -", "!!binary x", "&a [*a]", "fixed", "dyn", "reserved", "default", "nosuchballoon",
	"1000000000000", "4k", "1G", "100Mi", "/dev/*", "type: glob\npaths: [ \"[\" ]", "type: prefix\npaths: []", "mounts,devices", "none", "all,none", "high", "low", "normal", "none"}

var vAffinityKeys = []string{":", ":x", ":,", "::", ":a:b", ":,a,b", ":/pod/name/name", "", "pod/", "/", "labels/", "labels", "pod/labels/", "tags/", "name", "pod/name", "namespace", "qosclass", "pod/qosclass",
	"labels/app", "tags/t", ":;name;namespace", ":.", "\x00", strings.Repeat(":", 50), ":id", ":,;", ":,name", ":,,", "pod/:x", ":,:", "id", "uid", "pod/uid", "pod/id"}

// vAffinityAnn: full-notation (anti-)affinity annotations with odd scope/match keys, operators and values.
func vAffinityAnn(rng *rand.Rand) string {
	keys := vAffinityKeys
	ops := []string{"Equals", "NotEqual", "In", "NotIn", "Exists", "NotExist", "AlwaysTrue", "Matches", "MatchesNot", "MatchesAny", "MatchesNone", "Bogus", "", "equals"}
	vals := []string{"[]", "[ a ]", "[ a, b ]", "[ \"*\" ]", "[ \"[\" ]", "[ \"\" ]", "a", "{}", "null"}
	k := func() string { return strconv.Quote(keys[rng.Intn(len(keys))]) }
	// mostly well-formed expressions (valid operator, values and weight) so that the odd part - usually the key - is reached
	expr := func() string {
		op, vs := []string{"Equals", "In", "Exists", "Matches", "AlwaysTrue"}[rng.Intn(5)], []string{"[ a ]", "[ a, b ]", "[ \"*\" ]"}[rng.Intn(3)]
		if rng.Intn(4) == 0 {
			op, vs = ops[rng.Intn(len(ops))], vals[rng.Intn(len(vals))]
		}
		return fmt.Sprintf("{ key: %s, operator: %s, values: %s }", k(), strconv.Quote(op), vs)
	}
	w := []string{"1", "-1", "5", "1000"}[rng.Intn(4)]
	if rng.Intn(5) == 0 {
		w = []string{"0", "99999999999999999999", "x", "1.5"}[rng.Intn(4)]
	}
	switch rng.Intn(6) {
	case 4:
		// absent (null) list elements next to full-notation ones
		return fmt.Sprintf("ctr%d:\n- null\n- match: %s\n", rng.Intn(3), expr())
	case 5:
		return fmt.Sprintf("{\"ctr%d\": [{\"match\": %s}, null]}", rng.Intn(3), "{\"key\": \"name\", \"operator\": \"Exists\"}")
	case 0:
		return fmt.Sprintf("ctr%d:\n- scope: %s\n  match: %s\n  weight: %s\n", rng.Intn(3), expr(), expr(), w)
	case 1:
		return fmt.Sprintf("ctr%d:\n- match: %s\n", rng.Intn(3), expr())
	case 2:
		return fmt.Sprintf("ctr%d:\n- scope: %s\n", rng.Intn(3), expr())
	default:
		return fmt.Sprintf("ctr%d: [ ctr%d, %s ]", rng.Intn(3), rng.Intn(3), k())
	}
}

func vChaosPod(rng *rand.Rand, id string) *vPod {
	qos := []string{"Guaranteed", "Burstable", "BestEffort"}[rng.Intn(3)]
	ns := []string{"default", "prod", "kube-system", "reserved-x", ""}[rng.Intn(5)]
	p := &vPod{id: id, name: "pod-" + id, ns: ns, qos: qos, ann: map[string]string{}}
	for i, n := 0, rng.Intn(4); i < n; i++ {
		k := vAnnKeys[rng.Intn(len(vAnnKeys))] + "." + vKey
		if rng.Intn(4) == 0 {
			// the (anti-)affinity annotations use the "<namespace>/<name>" key form and take no /pod or /container suffix
			p.ann[vKey+"/"+[]string{"affinity", "anti-affinity"}[rng.Intn(2)]] = vAffinityAnn(rng)
			continue
		}
		switch rng.Intn(4) {
		case 0:
			k += "/pod"
		case 1:
			k += "/container.ctr" + strconv.Itoa(rng.Intn(3))
		case 2:
			k += "/container."
		}
		v := vAnnVals[rng.Intn(len(vAnnVals))]
		if strings.Contains(k, "affinity") && rng.Intn(3) != 0 {
			v = vAffinityAnn(rng)
		}
		if rng.Intn(40) == 0 {
			v = strings.Repeat(v+"x", 20000)
		}
		p.ann[k] = v
	}
	return p
}

// vChaosCtr builds the NRI container message, sometimes without optional sub-messages.
// vDevSweep is a counter walking systematically through all shapes of a device cgroup rule (type x optional major x optional
// minor x access x allow) against a container's devices: which rule shape a run meets must not depend on the dice
var vDevSweep int

func vDeviceRules(k int) []*api.LinuxDeviceCgroup {
	types := []string{"a", "c", "b", ""}
	opt := func(sel int, same int64) *api.OptionalInt64 {
		switch sel {
		case 0:
			return nil
		case 1:
			return &api.OptionalInt64{Value: same}
		}
		return &api.OptionalInt64{Value: same + 7}
	}
	acc := []string{"rwm", "m", "r", ""}
	r := &api.LinuxDeviceCgroup{Type: types[k%4], Major: opt((k/4)%3, 136), Minor: opt((k/12)%3, 0), Access: acc[(k/36)%4], Allow: (k/144)%2 == 0}
	rules := []*api.LinuxDeviceCgroup{r}
	if (k/288)%2 == 1 { // preceded by the runtime's usual deny-all
		rules = append([]*api.LinuxDeviceCgroup{{Allow: false, Type: "a", Access: "rwm"}}, rules...)
	}
	if (k/576)%2 == 1 { // a nil element cannot occur on the wire; an all-absent rule can
		rules = append(rules, &api.LinuxDeviceCgroup{})
	}
	return rules
}

func vChaosCtr(rng *rand.Rand, c *vCtr) *api.Container {
	nc := c.nri()
	switch rng.Intn(14) {
	case 0:
		nc.Linux = nil
	case 1:
		nc.Linux.Resources = nil
	case 2:
		nc.Linux.Resources.Cpu = nil
	case 3:
		nc.Linux.Resources.Memory = nil
	case 4:
		nc.Linux.OomScoreAdj = nil
	case 5:
		nc.Linux.Resources.Cpu.Shares, nc.Linux.Resources.Cpu.Quota, nc.Linux.Resources.Cpu.Period = nil, nil, nil
	case 6:
		nc.Linux.Resources.Cpu.Quota = api.Int64(-1)
		nc.Linux.Resources.Cpu.Period = api.UInt64(0)
	case 7:
		nc.Linux.Resources.Memory = &api.LinuxMemory{Limit: api.Int64(-1)}
	case 8:
		nc.Mounts = []*api.Mount{{Destination: "/x", Source: "/nonexistent/" + strings.Repeat("y", 300), Type: "bind"}}
	case 9:
		nc.Linux.Devices = []*api.LinuxDevice{{Path: "/dev/nonexistent", Type: "b", Major: 999, Minor: 999}}
	case 10, 11, 12:
		// devices with device cgroup rules whose optional numbers are present or absent (the cache derives topology hints from
		// the devices a container may write to)
		nc.Linux.Devices = []*api.LinuxDevice{{Path: "/dev/pts/0", Type: "c", Major: 136, Minor: 0}, {Path: "/dev/null", Type: "c", Major: 1, Minor: 3},
			{Path: "/dev/sdz", Type: "b", Major: 136, Minor: 0}}
		if nc.Linux.Resources == nil {
			nc.Linux.Resources = &api.LinuxResources{}
		}
		nc.Linux.Resources.Devices = vDeviceRules(vDevSweep)
		vDevSweep++
	}
	return nc
}

func TestVerifC14Chaos(t *testing.T) {
	w, done := vOpen(t)
	defer done()
	seed, _ := strconv.ParseInt(os.Getenv("VERIF_SEED"), 10, 64)
	rng := rand.New(rand.NewSource(seed + 1400))
	n := 60
	if os.Getenv("VERIF_TIER") == "thorough" {
		n = 1500
	}
	if v, err := strconv.Atoi(os.Getenv("VERIF_HISTORIES")); err == nil {
		n = v
	}
	ctx := context.Background()
	for i := 0; i < n; i++ {
		opts := verifgen.DefaultOpts()
		opts.AllowHybrid = false
		m := verifgen.Gen(rng, opts)
		pol := []string{"topology-aware", "balloons"}[i%2]
		var cfg cfgapi.ResmgrConfig
		var desc string
		if pol == "balloons" {
			cfg, desc = vBalloonsCfg(rng, m)
		} else {
			cfg, desc = vTACfg(rng, m)
		}
		root := t.TempDir()
		fmt.Fprintf(w, "H %d %s %s\n", i, pol, desc)
		h, err := vNewHarness(t, m, root, filepath.Join(root, "state"), pol, cfg)
		if err != nil {
			fmt.Fprintf(w, "HERR %s\n", vOneWord(err.Error()))
			continue
		}
		pods := map[string]*vPod{}
		ctrs := map[string]*vCtr{}
		pid := func() string { return "p" + strconv.Itoa(rng.Intn(6)) }   // small id spaces: collisions, repeats and
		cid := func() string { return "c" + strconv.Itoa(rng.Intn(10)) }  // unknown ids all occur
		call := func(ev string, fn func() error) string {
			fmt.Fprintf(w, "E %s\n", ev)
			r := vSafeStack(func() string {
				if err := fn(); err != nil {
					return vErr(err)
				}
				return "ok"
			})
			fmt.Fprintf(w, "R %s\n", r)
			return r
		}
		getPod := func(id string) *vPod {
			if p, ok := pods[id]; ok && rng.Intn(5) != 0 {
				return p
			}
			return vChaosPod(rng, id) // unknown to the plugin, or a different incarnation with the same id
		}
		// a container id belongs to one pod for good (runtime ids are unique): requests may repeat, come out of order or
		// name ids the plugin has forgotten, but an id never moves to another pod
		podOf := map[string]string{}
		nameOf := map[string]string{}
		getCtr := func(id string) *vCtr {
			if c, ok := ctrs[id]; ok && rng.Intn(5) != 0 {
				return c
			}
			if _, ok := podOf[id]; !ok {
				podOf[id], nameOf[id] = pid(), "ctr"+strconv.Itoa(rng.Intn(3))
			}
			p := getPod(podOf[id])
			c := vGenCtr(rng, p, 0, len(m.Online()))
			c.id, c.name = id, nameOf[id]
			return c
		}
		// reference: the plain lifecycle on the fresh plugin
		{
			p0 := &vPod{id: "init", name: "init", ns: "default", qos: "BestEffort", ann: map[string]string{}}
			c0 := &vCtr{id: "initc", name: "ctr0", pod: p0}
			call("init-runpod", func() error { return h.m.nri.RunPodSandbox(ctx, p0.nri()) })
			call("init-create", func() error { _, _, err := h.m.nri.CreateContainer(ctx, p0.nri(), c0.nri()); return err })
			call("init-stop", func() error { _, err := h.m.nri.StopContainer(ctx, p0.nri(), c0.nri()); return err })
			call("init-remove", func() error { return h.m.nri.RemoveContainer(ctx, p0.nri(), c0.nri()) })
			call("init-stoppod", func() error { return h.m.nri.StopPodSandbox(ctx, p0.nri()) })
			call("init-removepod", func() error { return h.m.nri.RemovePodSandbox(ctx, p0.nri()) })
		}
		// systematic sweep (first history of each policy): every odd expression key in scope and in match position of
		// both affinity annotations, and every interpreted annotation key with every odd value, each on a pod of its
		// own with one container going through the plain lifecycle
		if i < 2 {
			k := 0
			sweep := func(ann map[string]string) {
				k++
				p := &vPod{id: fmt.Sprintf("sw%d", k), name: fmt.Sprintf("sw%d", k), ns: "default", qos: "Burstable", ann: ann}
				c := &vCtr{id: fmt.Sprintf("swc%d", k), name: "ctr0", pod: p, milli: 500}
				call("sweep-runpod "+p.id, func() error { return h.m.nri.RunPodSandbox(ctx, p.nri()) })
				call("sweep-create "+c.id, func() error { _, _, err := h.m.nri.CreateContainer(ctx, p.nri(), c.nri()); return err })
				call("sweep-stop "+c.id, func() error { _, err := h.m.nri.StopContainer(ctx, p.nri(), c.nri()); return err })
				call("sweep-remove "+c.id, func() error { return h.m.nri.RemoveContainer(ctx, p.nri(), c.nri()) })
				call("sweep-removepod "+p.id, func() error { return h.m.nri.RemovePodSandbox(ctx, p.nri()) })
			}
			okExpr := "{ key: name, operator: Exists }"
			for _, key := range vAffinityKeys {
				for _, ak := range []string{"affinity", "anti-affinity"} {
					odd := fmt.Sprintf("{ key: %s, operator: \"Exists\" }", strconv.Quote(key))
					sweep(map[string]string{vKey + "/" + ak: fmt.Sprintf("ctr0:\n- scope: %s\n  match: %s\n", odd, okExpr)})
					sweep(map[string]string{vKey + "/" + ak: fmt.Sprintf("ctr0:\n- scope: %s\n  match: %s\n", okExpr, odd)})
					sweep(map[string]string{vKey + "/" + ak: fmt.Sprintf("ctr0:\n- match: %s\n", odd)})
				}
			}
			for _, ak := range vAnnKeys {
				for _, av := range vAnnVals {
					if os.Getenv("VERIF_TIER") != "thorough" && rng.Intn(4) != 0 {
						continue
					}
					sweep(map[string]string{ak + "." + vKey + []string{"", "/pod", "/container.ctr0"}[rng.Intn(3)]: av})
				}
			}
		}
		nev := 20 + rng.Intn(60)
		for j := 0; j < nev; j++ {
			switch r := rng.Intn(100); {
			case r < 14:
				p := vChaosPod(rng, pid())
				if call("runpod "+p.id, func() error { return h.m.nri.RunPodSandbox(ctx, p.nri()) }) == "ok" {
					pods[p.id] = p
				}
			case r < 20:
				p := getPod(pid())
				call("stoppod "+p.id, func() error { return h.m.nri.StopPodSandbox(ctx, p.nri()) })
			case r < 26:
				p := getPod(pid())
				call("removepod "+p.id, func() error { return h.m.nri.RemovePodSandbox(ctx, p.nri()) })
				delete(pods, p.id)
			case r < 48:
				c := getCtr(cid())
				nc := vChaosCtr(rng, c)
				if cc, ok := h.m.cache.LookupContainer(c.id); ok && cc.GetState() != cache.ContainerStateExited {
					// a duplicated CreateContainer for a container that is still live: the property only demands that it does not
					// crash; if it is accepted the container is booked twice, which may later exhaust the CPUs
					fmt.Fprintf(w, "X leaky %s\n", c.id)
				}
				res := call("create "+c.id+" in "+c.pod.id, func() error { _, _, err := h.m.nri.CreateContainer(ctx, c.pod.nri(), nc); return err })
				if res == "ok" {
					ctrs[c.id] = c
				}
			case r < 56:
				c := getCtr(cid())
				call("start "+c.id, func() error { return h.m.nri.StartContainer(ctx, c.pod.nri(), vChaosCtr(rng, c)) })
			case r < 66:
				c := getCtr(cid())
				nc := vChaosCtr(rng, c)
				var res *api.LinuxResources
				if nc.Linux != nil && rng.Intn(6) != 0 {
					res = nc.Linux.Resources
				}
				call("update "+c.id, func() error { _, err := h.m.nri.UpdateContainer(ctx, c.pod.nri(), nc, res); return err })
			case r < 76:
				c := getCtr(cid())
				call("stop "+c.id, func() error { _, err := h.m.nri.StopContainer(ctx, c.pod.nri(), vChaosCtr(rng, c)); return err })
			case r < 84:
				c := getCtr(cid())
				if cc, ok := h.m.cache.LookupContainer(c.id); ok && cc.GetState() != cache.ContainerStateExited {
					// removal of a container that was never stopped: its resources stay allocated (known finding
					// C09:grant-leak-after-remove-without-stop), so later refusals for lack of CPUs are expected
					fmt.Fprintf(w, "X leaky %s\n", c.id)
				}
				call("remove "+c.id, func() error { return h.m.nri.RemoveContainer(ctx, c.pod.nri(), vChaosCtr(rng, c)) })
				delete(ctrs, c.id)
			case r < 90:
				// the runtime's view: a random subset, containers possibly without their pods
				var ps []*api.PodSandbox
				var cs []*api.Container
				for _, p := range pods {
					if rng.Intn(4) != 0 {
						ps = append(ps, p.nri())
					}
				}
				for _, c := range ctrs {
					if rng.Intn(4) != 0 {
						nc := vChaosCtr(rng, c)
						nc.State = api.ContainerState(rng.Intn(5))
						cs = append(cs, nc)
					}
				}
				call(fmt.Sprintf("sync %d/%d", len(ps), len(cs)), func() error { _, err := h.m.nri.Synchronize(ctx, ps, cs); return err })
			case r < 94:
				call("reconfig same", func() error { return h.m.reconfigure(h.m.cfg) })
			default:
				// probe: a plain, valid lifecycle must still be served
				p := &vPod{id: fmt.Sprintf("probe%d", j), name: fmt.Sprintf("probe%d", j), ns: "default", qos: "BestEffort", ann: map[string]string{}}
				c := &vCtr{id: fmt.Sprintf("probec%d", j), name: "ctr0", pod: p}
				steps := []struct {
					n  string
					fn func() error
				}{
					{"runpod", func() error { return h.m.nri.RunPodSandbox(ctx, p.nri()) }},
					{"create", func() error { _, _, err := h.m.nri.CreateContainer(ctx, p.nri(), c.nri()); return err }},
					{"start", func() error { return h.m.nri.StartContainer(ctx, p.nri(), c.nri()) }},
					{"stop", func() error { _, err := h.m.nri.StopContainer(ctx, p.nri(), c.nri()); return err }},
					{"remove", func() error { return h.m.nri.RemoveContainer(ctx, p.nri(), c.nri()) }},
					{"stoppod", func() error { return h.m.nri.StopPodSandbox(ctx, p.nri()) }},
					{"removepod", func() error { return h.m.nri.RemovePodSandbox(ctx, p.nri()) }},
				}
				for _, s := range steps {
					call("probe-"+s.n+" "+c.id, s.fn)
				}
			}
		}
		// drain everything the plugin still knows, then a plain lifecycle must be served
		for _, c := range h.m.cache.GetContainers() {
			id, podID := c.GetID(), c.GetPodID()
			nc, np := &api.Container{Id: id, PodSandboxId: podID, Name: c.GetName()}, &api.PodSandbox{Id: podID}
			call("drain-stop "+id, func() error { _, err := h.m.nri.StopContainer(ctx, np, nc); return err })
			call("drain-remove "+id, func() error { return h.m.nri.RemoveContainer(ctx, np, nc) })
		}
		for _, p := range h.m.cache.GetPods() {
			np := &api.PodSandbox{Id: p.GetID()}
			call("drain-stoppod "+p.GetID(), func() error { return h.m.nri.StopPodSandbox(ctx, np) })
			call("drain-removepod "+p.GetID(), func() error { return h.m.nri.RemovePodSandbox(ctx, np) })
		}
		fp := &vPod{id: "final", name: "final", ns: "default", qos: "BestEffort", ann: map[string]string{}}
		fc := &vCtr{id: "finalc", name: "ctr0", pod: fp}
		call("final-runpod", func() error { return h.m.nri.RunPodSandbox(ctx, fp.nri()) })
		if call("final-create", func() error { _, _, err := h.m.nri.CreateContainer(ctx, fp.nri(), fc.nri()); return err }) != "ok" {
			// diagnosis aid: what still holds resources
			fmt.Fprintf(w, "Z cache %s\n", h.vCacheView())
			var snap []string
			if pol == "balloons" {
				snap = balloons.VerifSnapshot(h.backend)
			} else {
				snap = topologyaware.VerifSnapshot(h.backend)
			}
			for _, l := range snap {
				if !strings.HasPrefix(l, "BL ") && !strings.HasPrefix(l, "PN ") {
					fmt.Fprintf(w, "Z %s\n", l)
				}
			}
		}
		call("final-start", func() error { return h.m.nri.StartContainer(ctx, fp.nri(), fc.nri()) })
		call("final-stop", func() error { _, err := h.m.nri.StopContainer(ctx, fp.nri(), fc.nri()); return err })
		call("final-remove", func() error { return h.m.nri.RemoveContainer(ctx, fp.nri(), fc.nri()) })
		w.Flush()
	}
}

var _ = bufio.NewWriter

// vSafeStack is vSafe that also reports where the panic was raised.
func vSafeStack(fn func() string) (res string) {
	defer func() {
		if r := recover(); r != nil {
			st := strings.Split(string(debug.Stack()), "\n")
			where := []string{}
			for _, l := range st {
				l = strings.TrimSpace(l)
				if strings.Contains(l, "/repo/") && !strings.Contains(l, "zz_verif") {
					where = append(where, l[strings.Index(l, "/repo/")+6:])
					if len(where) == 3 {
						break
					}
				}
			}
			res = "panic " + vOneWord(fmt.Sprint(r)) + " at=" + vOneWord(strings.Join(where, ";"))
		}
	}()
	return fn()
}
