//go:build verif

package cpu

import (
	"sort"

	"github.com/containers/nri-plugins/pkg/resmgr/cache"
)

// VerifAssignments returns the stored CPU class assignments (class -> sorted CPU ids); verif builds only.
func VerifAssignments(c cache.Cache) map[string][]int {
	out := map[string][]int{}
	for k, v := range *getClassAssignments(c) {
		ids := v.Members()
		sort.Ints(ids)
		out[k] = ids
	}
	return out
}
