//go:build verif

package cpuallocator

// C08 correspondence harness: real stages of the allocatorHelper and the real
// AllocateCpus/ReleaseCpus on generated machines (rendered as sysfs trees and discovered by
// the real pkg/sysfs), all subsets/counts on small machines, sampled on larger ones.

import (
	"bufio"
	"fmt"
	"math/rand"
	"os"
	"path/filepath"
	"strconv"
	"strings"
	"testing"

	logger "github.com/containers/nri-plugins/pkg/log"
	"github.com/containers/nri-plugins/pkg/sysfs"
	"github.com/containers/nri-plugins/pkg/utils/cpuset"
	"github.com/containers/nri-plugins/pkg/verifgen"
)

func vSet(s cpuset.CPUSet) string {
	l := s.List()
	if len(l) == 0 {
		return "-"
	}
	p := make([]string, len(l))
	for i, x := range l {
		p[i] = strconv.Itoa(x)
	}
	return strings.Join(p, "+")
}

func vDiscover(t *testing.T, m *verifgen.Machine, dir string) (sysfs.System, error) {
	root := filepath.Join(dir, "sys")
	if err := m.Render(root); err != nil {
		t.Fatal(err)
	}
	return sysfs.DiscoverSystemAt(root, sysfs.DiscoverCPUTopology, sysfs.DiscoverMemTopology, sysfs.DiscoverCache)
}

func vState(a *allocatorHelper) string {
	return fmt.Sprintf("%s %s %d", vSet(a.from), vSet(a.result), a.cnt)
}

func TestVerifC08(t *testing.T) {
	out := os.Getenv("VERIF_OUT")
	if out == "" {
		t.Skip("VERIF_OUT not set")
	}
	logger.SetLevel(logger.LevelFatal)
	f, err := os.Create(out)
	if err != nil {
		t.Fatal(err)
	}
	defer f.Close()
	w := bufio.NewWriterSize(f, 1<<20)
	defer w.Flush()
	seed, _ := strconv.ParseInt(os.Getenv("VERIF_SEED"), 10, 64)
	rng := rand.New(rand.NewSource(seed + 8))
	thorough := os.Getenv("VERIF_TIER") == "thorough"
	nMachines := 60
	if thorough {
		nMachines = 1500
	}
	for mi := 0; mi < nMachines; mi++ {
		opts := verifgen.DefaultOpts()
		if mi%3 == 0 { // small machines for exhaustive enumeration
			opts.MaxPkgs, opts.MaxCores, opts.MaxNodesPerDie, opts.MaxDies = 2, 2, 2, 1
		}
		m := verifgen.Gen(rng, opts)
		sys, err := vDiscover(t, m, t.TempDir())
		if err != nil {
			fmt.Fprintf(w, "MERR %s\n", strings.ReplaceAll(err.Error(), " ", "_"))
			continue
		}
		sys2, err := vDiscover(t, m, t.TempDir())
		if err != nil {
			t.Fatal(err)
		}
		ca := NewCPUAllocator(sys).(*cpuAllocator)
		ca2 := NewCPUAllocator(sys2).(*cpuAllocator)
		topo := ca.topologyCache
		// topology as the allocator sees it
		pk, co := []string{}, []string{}
		for _, id := range sys.PackageIDs() {
			pk = append(pk, vSet(topo.pkg[id]))
		}
		seen := map[string]bool{}
		for _, id := range sys.CPUIDs() {
			if c, ok := topo.core[id]; ok && !seen[vSet(c)] {
				seen[vSet(c)] = true
				co = append(co, vSet(c))
			}
		}
		pr := []string{}
		for p := 0; p < int(NumCPUPriorities); p++ {
			pr = append(pr, vSet(topo.cpuPriorities[p]))
		}
		fmt.Fprintf(w, "M %d %s %s %s %s %d %d\n", mi, strings.Join(pk, ","), strings.Join(co, ","), strings.Join(pr, ","), vSet(sys.Offlined()), len(topo.kind), len(topo.cacheGroups))
		online := sys.OnlineCPUs().List()
		type tc struct {
			from   cpuset.CPUSet
			cnt    int
			prefer CPUPriority
			flags  AllocFlag
		}
		var cases []tc
		exhaustive := len(online) <= 8
		if exhaustive {
			for mask := 1; mask < (1 << len(online)); mask++ {
				ids := []int{}
				for i, id := range online {
					if mask&(1<<i) != 0 {
						ids = append(ids, id)
					}
				}
				for cnt := 0; cnt <= len(ids)+1; cnt++ {
					cases = append(cases, tc{cpuset.New(ids...), cnt, CPUPriority(rng.Intn(4)), AllocFlag(rng.Intn(16))})
					if cnt > 0 && cnt < len(ids) {
						cases = append(cases, tc{cpuset.New(ids...), cnt, CPUPriority(rng.Intn(4)), AllocDefault})
					}
				}
			}
			fmt.Fprintf(w, "XH %d %d\n", len(online), len(cases))
		} else {
			for k := 0; k < 60; k++ {
				ids := []int{}
				p := 0.2 + 0.8*rng.Float64()
				for _, id := range online {
					if rng.Float64() < p {
						ids = append(ids, id)
					}
				}
				if len(ids) == 0 {
					continue
				}
				cnt := rng.Intn(len(ids) + 2)
				if rng.Intn(3) == 0 {
					cnt = 1 + rng.Intn(4)
				}
				flags := AllocDefault
				if rng.Intn(3) == 0 {
					flags = AllocFlag(rng.Intn(16))
				}
				cases = append(cases, tc{cpuset.New(ids...), cnt, CPUPriority(rng.Intn(4)), flags})
			}
		}
		for _, c := range cases {
			// each real stage on its own
			if c.cnt > 0 && c.cnt <= c.from.Size() {
				for si, name := range []string{"pkgs", "clusters", "cachegroups", "cores", "threads"} {
					if exhaustive && rng.Intn(4) != 0 {
						continue
					}
					a := newAllocatorHelper(sys, topo)
					a.from, a.cnt, a.prefer, a.flags, a.result = c.from.Clone(), c.cnt, c.prefer, c.flags, cpuset.New()
					pre := vState(a)
					func() {
						defer func() {
							if r := recover(); r != nil {
								fmt.Fprintf(w, "G %s %d %s => panic\n", name, int(c.prefer), pre)
							}
						}()
						switch si {
						case 0:
							a.takeIdlePackages()
						case 1:
							a.takeIdleClusters()
						case 2:
							a.takeCacheGroups()
						case 3:
							a.takeIdleCores()
						case 4:
							a.takeIdleThreads()
						}
						fmt.Fprintf(w, "G %s %d %s => %s\n", name, int(c.prefer), pre, vState(a))
					}()
				}
			}
			// the public API, twice on independently discovered systems
			from1, from2 := c.from.Clone(), c.from.Clone()
			r1, e1 := ca.AllocateCpus(&from1, c.cnt, WithPriority(c.prefer), WithAllocFlags(c.flags))
			r2, e2 := ca2.AllocateCpus(&from2, c.cnt, WithPriority(c.prefer), WithAllocFlags(c.flags))
			res := vSet(r1)
			if e1 != nil {
				res = "err"
			}
			det := "same"
			if !r1.Equals(r2) || !from1.Equals(from2) || (e1 == nil) != (e2 == nil) {
				det = "diff"
			}
			// determinism, repeated: map-iteration order differs from call to call, so equal-ranked candidates that reach
			// the result in map order show up only now and then (more often the more candidates tie)
			reps := 2
			if len(topo.kind) > 1 {
				reps = 16
			}
			for k := 0; k < reps && det == "same"; k++ {
				fromK := c.from.Clone()
				alloc := ca
				if k%2 == 1 {
					alloc = ca2
				}
				rK, eK := alloc.AllocateCpus(&fromK, c.cnt, WithPriority(c.prefer), WithAllocFlags(c.flags))
				if !r1.Equals(rK) || !from1.Equals(fromK) || (e1 == nil) != (eK == nil) {
					det = "diff"
				}
			}
			fmt.Fprintf(w, "A %s %d %d %d => %s %s %s\n", vSet(c.from), c.cnt, int(c.prefer), int(c.flags), res, vSet(from1), det)
			if c.cnt <= c.from.Size() {
				from3 := c.from.Clone()
				r3, e3 := ca.ReleaseCpus(&from3, c.cnt, WithPriority(c.prefer), WithAllocFlags(c.flags))
				res = vSet(r3)
				if e3 != nil {
					res = "err"
				}
				fmt.Fprintf(w, "R %s %d %d %d => %s %s\n", vSet(c.from), c.cnt, int(c.prefer), int(c.flags), res, vSet(from3))
			}
		}
	}
}
