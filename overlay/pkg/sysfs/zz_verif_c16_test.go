//go:build verif

package sysfs

// C16 (discovery) harness: generated machines are rendered as sysfs trees, discovered by the
// real DiscoverSystemAt, and everything the accessors report is dumped in the same line format
// as the abstract machine for comparison.

import (
	"bufio"
	"fmt"
	"math/rand"
	"os"
	"path/filepath"
	"sort"
	"strconv"
	"strings"
	"testing"

	logger "github.com/containers/nri-plugins/pkg/log"
	"github.com/containers/nri-plugins/pkg/verifgen"
)

func vj(l []int) string {
	if len(l) == 0 {
		return "-"
	}
	sort.Ints(l)
	s := []string{}
	for _, x := range l {
		s = append(s, strconv.Itoa(x))
	}
	return strings.Join(s, "+")
}

func vb(x bool) string {
	if x {
		return "1"
	}
	return "0"
}

func TestVerifC16Discovery(t *testing.T) {
	out := os.Getenv("VERIF_OUT")
	if out == "" {
		t.Skip("VERIF_OUT not set")
	}
	logger.SetLevel(logger.LevelFatal)
	f, err := os.Create(out)
	if err != nil {
		t.Fatal(err)
	}
	defer f.Close()
	w := bufio.NewWriterSize(f, 1<<20)
	defer w.Flush()
	seed, _ := strconv.ParseInt(os.Getenv("VERIF_SEED"), 10, 64)
	rng := rand.New(rand.NewSource(seed + 16))
	n := 250
	if os.Getenv("VERIF_TIER") == "thorough" {
		n = 8000
	}
	os.Unsetenv("OVERRIDE_SYS_CACHES")
	for i := 0; i < n; i++ {
		m := verifgen.Gen(rng, verifgen.DefaultOpts())
		dir := t.TempDir()
		root := filepath.Join(dir, "sys")
		if err := m.Render(root); err != nil {
			t.Fatal(err)
		}
		fmt.Fprintf(w, "M %s\n", m.Line())
		s, err := DiscoverSystemAt(root, DiscoverCPUTopology, DiscoverMemTopology, DiscoverCache)
		if err != nil {
			fmt.Fprintf(w, "D err %s\n", strings.ReplaceAll(err.Error(), " ", "_"))
			continue
		}
		cl := []string{}
		ids := s.CPUIDs()
		sort.Ints(ids)
		for _, id := range ids {
			c := s.CPU(id)
			kind := 0
			if c.CoreKind() == EfficientCore {
				kind = 1
			}
			// offline CPUs have no topology; report zeros as the abstract line does not compare them
			l2 := c.GetNthLevelCacheCPUSet(2).List()
			l3 := c.GetNthLevelCacheCPUSet(3).List()
			cl = append(cl, fmt.Sprintf("%d:%d:%d:%d:%d:%d:%s:%s:%d:%s:%s:%s", id, c.PackageID(), c.DieID(), c.ClusterID(), c.NodeID(), c.CoreID(),
				vb(c.Online()), vb(c.Isolated()), kind, vj(c.ThreadCPUSet().List()), vj(l2), vj(l3)))
		}
		nl := []string{}
		nids := s.NodeIDs()
		sort.Ints(nids)
		types := []string{}
		for _, id := range nids {
			nd := s.Node(id)
			mi, err := nd.MemoryInfo()
			total := uint64(0)
			if err == nil {
				total = mi.MemTotal
			}
			nl = append(nl, fmt.Sprintf("%d:%s:%s:%d:%s:%s", id, vj(nd.CPUSet().List()), vj(append([]int{}, nd.Distance()...)), total, vb(total > 0), vb(nd.HasNormalMemory())))
			types = append(types, nd.GetMemoryType().String())
		}
		pk := []string{}
		for _, id := range s.PackageIDs() {
			p := s.Package(id)
			dies := []string{}
			for _, d := range p.DieIDs() {
				dies = append(dies, fmt.Sprintf("%d=%s=%s", d, vj(p.DieCPUSet(d).List()), vj(append([]int{}, p.DieNodeIDs(d)...))))
			}
			pk = append(pk, fmt.Sprintf("%d/%s/%s/%s", id, vj(p.CPUSet().List()), vj(append([]int{}, p.NodeIDs()...)), strings.Join(dies, ";")))
		}
		// distances are order-significant: print unsorted
		dl := []string{}
		for _, id := range nids {
			ds := []string{}
			for _, x := range s.Node(id).Distance() {
				ds = append(ds, strconv.Itoa(x))
			}
			dl = append(dl, strings.Join(ds, "+"))
		}
		fmt.Fprintf(w, "D ok %s %s | %s | %s | %s | %s %s %s\n", strings.Join(cl, ","), strings.Join(nl, ","), strings.Join(types, ","), strings.Join(pk, ","), strings.Join(dl, ","),
			vj(s.OnlineCPUs().List()), vj(s.OfflineCPUs().List()), vj(s.IsolatedCPUs().List()))
	}
}
