//go:build verif

package verifgen

// Abstract machine descriptions, a seeded generator for them, and a renderer that writes the
// sysfs files pkg/sysfs discovery reads. Used by the C08, C16 and policy harnesses.

import (
	"fmt"
	"math/rand"
	"os"
	"path/filepath"
	"sort"
	"strconv"
	"strings"
)

type CPU struct {
	ID, Pkg, Die, Cluster, Node, Core int
	Online, Isolated                  bool
	Kind                              int // 0 = performance core, 1 = efficient core
	Threads                           []int
	L2, L3                            []int // CPUs sharing this CPU's L2 / L3 (nil = no such cache)
	L2ID, L3ID                        int
	BaseFreq, MinFreq, MaxFreq        uint64
	EPP                               string
}

type Node struct {
	ID        int
	CPUs      []int
	Distance  []int
	MemTotal  uint64 // kB
	HasMemory bool
	Normal    bool
	Kind      string // "DRAM", "PMEM", "HBM" as intended by the generator
}

type Machine struct {
	CPUs        []CPU
	Nodes       []Node
	Hybrid      bool
	HasClusters bool
	ThreadsFile string // "core_cpus_list" or "thread_siblings_list"
	Desc        string
}

// ListFormat renders a set of ids in the kernel's list format ("0-3,8,10-11").
func ListFormat(ids []int) string {
	s := append([]int{}, ids...)
	sort.Ints(s)
	var parts []string
	for i := 0; i < len(s); {
		j := i
		for j+1 < len(s) && s[j+1] == s[j]+1 {
			j++
		}
		if j == i {
			parts = append(parts, strconv.Itoa(s[i]))
		} else {
			parts = append(parts, fmt.Sprintf("%d-%d", s[i], s[j]))
		}
		i = j + 1
	}
	return strings.Join(parts, ",")
}

func (m *Machine) Online() []int {
	var r []int
	for _, c := range m.CPUs {
		if c.Online {
			r = append(r, c.ID)
		}
	}
	return r
}

func (m *Machine) Isolated() []int {
	var r []int
	for _, c := range m.CPUs {
		if c.Isolated {
			r = append(r, c.ID)
		}
	}
	return r
}

func (m *Machine) All() []int {
	var r []int
	for _, c := range m.CPUs {
		r = append(r, c.ID)
	}
	return r
}

type GenOpts struct {
	MaxPkgs, MaxDies, MaxNodesPerDie, MaxCores, MaxThreads int
	AllowOffline, AllowIsolated, AllowHybrid, AllowSpecialMem, AllowMemless, AllowClusters bool
}

func DefaultOpts() GenOpts {
	return GenOpts{MaxPkgs: 4, MaxDies: 2, MaxNodesPerDie: 2, MaxCores: 4, MaxThreads: 2,
		AllowOffline: true, AllowIsolated: true, AllowHybrid: true, AllowSpecialMem: true, AllowMemless: true, AllowClusters: true}
}

// Gen generates a machine: packages x dies x NUMA nodes (sub-NUMA clustering) x cores x
// threads, optional clusters, L2 per core or cluster, L3 per node/die/package, hybrid cores,
// offline and isolated CPUs, CPU-less PMEM/HBM nodes, memory-less CPU nodes.
func Gen(rng *rand.Rand, o GenOpts) *Machine {
	pkgs := 1 + rng.Intn(o.MaxPkgs)
	if rng.Intn(3) != 0 && pkgs > 2 {
		pkgs = 1 + rng.Intn(2)
	}
	dies := 1
	if rng.Intn(4) == 0 {
		dies = 1 + rng.Intn(o.MaxDies)
	}
	npd := 1
	if rng.Intn(3) == 0 {
		npd = 1 + rng.Intn(o.MaxNodesPerDie)
	}
	cores := 1 + rng.Intn(o.MaxCores)
	threads := 1 + rng.Intn(o.MaxThreads)
	hybrid := o.AllowHybrid && rng.Intn(5) == 0
	clusters := o.AllowClusters && (hybrid || rng.Intn(4) == 0)
	clusterCores := 1 + rng.Intn(2) // cores per cluster
	l3Scope := rng.Intn(4)          // 0 node, 1 die, 2 package, 3 none
	seqNumbering := rng.Intn(2) == 0
	m := &Machine{Hybrid: hybrid, HasClusters: clusters, ThreadsFile: "core_cpus_list"}
	if rng.Intn(4) == 0 {
		m.ThreadsFile = "thread_siblings_list"
	}
	m.Desc = fmt.Sprintf("pkgs=%d dies=%d nodes/die=%d cores/node=%d threads=%d hybrid=%v clusters=%v l3=%d seq=%v", pkgs, dies, npd, cores, threads, hybrid, clusters, l3Scope, seqNumbering)

	type coreT struct{ pkg, die, node, core, cluster, kind, threads int }
	var cs []coreT
	node := 0
	for p := 0; p < pkgs; p++ {
		coreID := 0
		clusterID := 0
		for d := 0; d < dies; d++ {
			for n := 0; n < npd; n++ {
				for c := 0; c < cores; c++ {
					kind, th := 0, threads
					if hybrid && c >= (cores+1)/2 {
						kind, th = 1, 1
					}
					cs = append(cs, coreT{p, d, node, coreID, clusterID + c/clusterCores, kind, th})
					coreID++
				}
				clusterID += (cores + clusterCores - 1) / clusterCores
				node++
			}
		}
	}
	cpuNodes := node
	// CPU numbering
	total := 0
	for _, c := range cs {
		total += c.threads
	}
	ids := make([][]int, len(cs))
	if seqNumbering {
		id := 0
		for i, c := range cs {
			for t := 0; t < c.threads; t++ {
				ids[i] = append(ids[i], id)
				id++
			}
		}
	} else {
		id := 0
		for t := 0; t < 2; t++ {
			for i, c := range cs {
				if t < c.threads {
					ids[i] = append(ids[i], id)
					id++
				}
			}
		}
	}
	m.CPUs = make([]CPU, total)
	for i, c := range cs {
		for _, id := range ids[i] {
			m.CPUs[id] = CPU{ID: id, Pkg: c.pkg, Die: c.die, Cluster: c.cluster, Node: c.node, Core: c.core, Online: true,
				Kind: c.kind, Threads: append([]int{}, ids[i]...), BaseFreq: 2000000, MinFreq: 800000, MaxFreq: 3000000 + uint64(rng.Intn(3))*200000,
				EPP: []string{"performance", "balance_performance", "balance_power", "power"}[rng.Intn(4)]}
		}
	}
	// caches
	group := func(key func(c CPU) string) map[string][]int {
		g := map[string][]int{}
		for _, c := range m.CPUs {
			g[key(c)] = append(g[key(c)], c.ID)
		}
		return g
	}
	l2 := group(func(c CPU) string {
		if clusters {
			return fmt.Sprintf("%d/%d/%d", c.Pkg, c.Die, c.Cluster)
		}
		return fmt.Sprintf("%d/%d", c.Pkg, c.Core)
	})
	var l3 map[string][]int
	l3key := func(c CPU) string { return "" }
	switch l3Scope {
	case 0:
		l3key = func(c CPU) string { return fmt.Sprintf("n%d", c.Node) }
	case 1:
		l3key = func(c CPU) string { return fmt.Sprintf("%d/%d", c.Pkg, c.Die) }
	case 2:
		l3key = func(c CPU) string { return fmt.Sprintf("%d", c.Pkg) }
	}
	if l3Scope != 3 {
		l3 = group(l3key)
	}
	l2key := func(c CPU) string {
		if clusters {
			return fmt.Sprintf("%d/%d/%d", c.Pkg, c.Die, c.Cluster)
		}
		return fmt.Sprintf("%d/%d", c.Pkg, c.Core)
	}
	idOf := func(g map[string][]int) map[string]int {
		keys := []string{}
		for k := range g {
			keys = append(keys, k)
		}
		sort.Strings(keys)
		r := map[string]int{}
		for i, k := range keys {
			r[k] = i
		}
		return r
	}
	l2ids := idOf(l2)
	var l3ids map[string]int
	if l3 != nil {
		l3ids = idOf(l3)
	}
	for i := range m.CPUs {
		c := &m.CPUs[i]
		c.L2, c.L2ID = l2[l2key(*c)], l2ids[l2key(*c)]
		if l3 != nil {
			c.L3, c.L3ID = l3[l3key(*c)], l3ids[l3key(*c)]
		}
	}
	// offline / isolated (whole cores, so that core kinds stay thread-complete)
	if o.AllowOffline && rng.Intn(4) == 0 && len(cs) > 1 {
		k := rng.Intn(len(cs))
		// never offline CPU 0's core
		if ids[k][0] != 0 {
			if rng.Intn(2) == 0 {
				for _, id := range ids[k] {
					m.CPUs[id].Online = false
				}
			} else if len(ids[k]) > 1 {
				m.CPUs[ids[k][len(ids[k])-1]].Online = false
			}
		}
	}
	if o.AllowIsolated && rng.Intn(3) == 0 {
		n := 1 + rng.Intn(2)
		for j := 0; j < n; j++ {
			k := rng.Intn(len(cs))
			for _, id := range ids[k] {
				if m.CPUs[id].Online {
					m.CPUs[id].Isolated = true
				}
			}
		}
	}
	// nodes
	special := 0
	if o.AllowSpecialMem && rng.Intn(3) == 0 {
		special = 1 + rng.Intn(cpuNodes)
		if special > 3 {
			special = 3
		}
	}
	nn := cpuNodes + special
	m.Nodes = make([]Node, nn)
	nodePkg := make([]int, nn)
	for _, c := range m.CPUs {
		m.Nodes[c.Node].CPUs = append(m.Nodes[c.Node].CPUs, c.ID)
		nodePkg[c.Node] = c.Pkg
	}
	memless := -1
	if o.AllowMemless && cpuNodes > 1 && rng.Intn(6) == 0 {
		memless = 1 + rng.Intn(cpuNodes-1)
	}
	for i := 0; i < cpuNodes; i++ {
		m.Nodes[i].ID = i
		m.Nodes[i].Kind = "DRAM"
		m.Nodes[i].MemTotal = uint64(4+rng.Intn(60)) * 1024 * 1024
		m.Nodes[i].HasMemory, m.Nodes[i].Normal = true, true
		if i == memless {
			m.Nodes[i].MemTotal, m.Nodes[i].HasMemory, m.Nodes[i].Normal = 0, false, false
		}
	}
	attach := make([]int, nn) // the DRAM node a special node is closest to
	attach2 := make([]int, nn) // … and, for ties, a second equally close one (else the same)
	for i := cpuNodes; i < nn; i++ {
		m.Nodes[i].ID = i
		a := rng.Intn(cpuNodes)
		for a == memless {
			a = rng.Intn(cpuNodes)
		}
		attach[i] = a
		attach2[i] = a
		if cpuNodes > 2 && rng.Intn(3) == 0 {
			// a memory-only node equally close to two CPU-bearing DRAM nodes (e.g. a socket-wide PMEM node under sub-NUMA clustering)
			b := rng.Intn(cpuNodes)
			for b == memless || b == a {
				b = rng.Intn(cpuNodes)
			}
			attach2[i] = b
		}
		nodePkg[i] = nodePkg[a]
		if rng.Intn(3) == 0 {
			m.Nodes[i].Kind = "HBM"
			m.Nodes[i].MemTotal = uint64(1+rng.Intn(2)) * 1024 * 1024
		} else {
			m.Nodes[i].Kind = "PMEM"
			m.Nodes[i].MemTotal = uint64(128+rng.Intn(128)) * 1024 * 1024
		}
		m.Nodes[i].HasMemory = true
		m.Nodes[i].Normal = rng.Intn(3) != 0
	}
	for i := 0; i < nn; i++ {
		m.Nodes[i].Distance = make([]int, nn)
		for j := 0; j < nn; j++ {
			d := 21
			switch {
			case i == j:
				d = 10
			case i >= cpuNodes && (attach[i] == j || attach2[i] == j), j >= cpuNodes && (attach[j] == i || attach2[j] == i):
				d = 17
			case i >= cpuNodes || j >= cpuNodes:
				d = 28
				if nodePkg[i] == nodePkg[j] {
					d = 24
				}
			case nodePkg[i] == nodePkg[j]:
				d = 11
			}
			m.Nodes[i].Distance[j] = d
		}
	}
	return m
}

func write(root, rel, content string) error {
	p := filepath.Join(root, rel)
	if err := os.MkdirAll(filepath.Dir(p), 0o755); err != nil {
		return err
	}
	return os.WriteFile(p, []byte(content+"\n"), 0o644)
}

// Render writes the machine as a sysfs tree under root (root is the ".../sys" directory).
func (m *Machine) Render(root string) error {
	cpuBase := "devices/system/cpu"
	all := m.All()
	files := map[string]string{
		cpuBase + "/possible": ListFormat(all),
		cpuBase + "/present":  ListFormat(all),
		cpuBase + "/online":   ListFormat(m.Online()),
		cpuBase + "/isolated": ListFormat(m.Isolated()),
	}
	if m.Hybrid {
		var p, e []int
		for _, c := range m.CPUs {
			if !c.Online {
				continue
			}
			if c.Kind == 0 {
				p = append(p, c.ID)
			} else {
				e = append(e, c.ID)
			}
		}
		files["devices/cpu_core/cpus"] = ListFormat(p)
		files["devices/cpu_atom/cpus"] = ListFormat(e)
	}
	for _, c := range m.CPUs {
		d := fmt.Sprintf("%s/cpu%d", cpuBase, c.ID)
		if err := os.MkdirAll(filepath.Join(root, d, fmt.Sprintf("node%d", c.Node)), 0o755); err != nil {
			return err
		}
		if c.Online {
			files[d+"/topology/physical_package_id"] = strconv.Itoa(c.Pkg)
			files[d+"/topology/die_id"] = strconv.Itoa(c.Die)
			if m.HasClusters {
				files[d+"/topology/cluster_id"] = strconv.Itoa(c.Cluster)
			}
			files[d+"/topology/core_id"] = strconv.Itoa(c.Core)
			var th []int
			for _, t := range c.Threads {
				if m.CPUs[t].Online {
					th = append(th, t)
				}
			}
			files[d+"/topology/"+m.ThreadsFile] = ListFormat(th)
		}
		files[d+"/cpufreq/base_frequency"] = strconv.FormatUint(c.BaseFreq, 10)
		files[d+"/cpufreq/cpuinfo_min_freq"] = strconv.FormatUint(c.MinFreq, 10)
		files[d+"/cpufreq/cpuinfo_max_freq"] = strconv.FormatUint(c.MaxFreq, 10)
		files[d+"/cpufreq/energy_performance_preference"] = c.EPP
		idx := 0
		cache := func(level int, typ, size string, id int, shared []int) {
			p := fmt.Sprintf("%s/cache/index%d", d, idx)
			files[p+"/id"] = strconv.Itoa(id)
			files[p+"/level"] = strconv.Itoa(level)
			files[p+"/type"] = typ
			files[p+"/size"] = size
			files[p+"/shared_cpu_list"] = ListFormat(shared)
			idx++
		}
		cache(1, "Data", "32K", c.Pkg*1000+c.Core, c.Threads)
		cache(1, "Instruction", "32K", c.Pkg*1000+c.Core, c.Threads)
		cache(2, "Unified", "1024K", c.L2ID, c.L2)
		if c.L3 != nil {
			cache(3, "Unified", "32M", c.L3ID, c.L3)
		}
	}
	nodeBase := "devices/system/node"
	var online, hasMem, normal []int
	for _, n := range m.Nodes {
		online = append(online, n.ID)
		if n.HasMemory {
			hasMem = append(hasMem, n.ID)
		}
		if n.Normal {
			normal = append(normal, n.ID)
		}
		d := fmt.Sprintf("%s/node%d", nodeBase, n.ID)
		files[d+"/cpulist"] = ListFormat(n.CPUs)
		ds := []string{}
		for _, x := range n.Distance {
			ds = append(ds, strconv.Itoa(x))
		}
		files[d+"/distance"] = strings.Join(ds, " ")
		free := n.MemTotal / 2
		files[d+"/meminfo"] = fmt.Sprintf("Node %d MemTotal:       %d kB\nNode %d MemFree:        %d kB\nNode %d MemUsed:        %d kB", n.ID, n.MemTotal, n.ID, free, n.ID, n.MemTotal-free)
	}
	files[nodeBase+"/online"] = ListFormat(online)
	files[nodeBase+"/has_memory"] = ListFormat(hasMem)
	files[nodeBase+"/has_normal_memory"] = ListFormat(normal)
	for rel, content := range files {
		if err := write(root, rel, content); err != nil {
			return err
		}
	}
	return nil
}

// Line encodes the machine for the Lean driver:
// cpus: id:pkg:die:cluster:node:core:online:isolated:kind:threads(+sep):l2:l3 ; nodes: id:cpus:dist:memtotal:hasmem:normal
func (m *Machine) Line() string {
	j := func(l []int) string {
		if len(l) == 0 {
			return "-"
		}
		s := []string{}
		for _, x := range l {
			s = append(s, strconv.Itoa(x))
		}
		return strings.Join(s, "+")
	}
	b := func(x bool) string {
		if x {
			return "1"
		}
		return "0"
	}
	cl := []string{}
	for _, c := range m.CPUs {
		cluster := c.Cluster
		if !m.HasClusters {
			cluster = 0
		}
		cl = append(cl, fmt.Sprintf("%d:%d:%d:%d:%d:%d:%s:%s:%d:%s:%s:%s", c.ID, c.Pkg, c.Die, cluster, c.Node, c.Core, b(c.Online), b(c.Isolated), c.Kind, j(c.Threads), j(c.L2), j(c.L3)))
	}
	nl := []string{}
	for _, n := range m.Nodes {
		nl = append(nl, fmt.Sprintf("%d:%s:%s:%d:%s:%s", n.ID, j(n.CPUs), j(n.Distance), n.MemTotal*1024, b(n.HasMemory), b(n.Normal)))
	}
	return strings.Join(cl, ",") + " " + strings.Join(nl, ",")
}
