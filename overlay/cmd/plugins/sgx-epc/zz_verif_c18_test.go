//go:build verif

package main

import (
	"bufio"
	"fmt"
	"math/rand"
	"os"
	"strconv"
	"testing"
)

func TestVerifC18Sgx(t *testing.T) {
	out := os.Getenv("VERIF_OUT")
	if out == "" {
		t.Skip("VERIF_OUT not set")
	}
	f, err := os.Create(out)
	if err != nil {
		t.Fatal(err)
	}
	defer f.Close()
	w := bufio.NewWriterSize(f, 1<<20)
	defer w.Flush()
	seed, _ := strconv.ParseInt(os.Getenv("VERIF_SEED"), 10, 64)
	rng := rand.New(rand.NewSource(seed + 181))
	n := 6000
	if os.Getenv("VERIF_TIER") == "thorough" {
		n = 300000
	}
	keys := []string{epcLimitKey, epcLimitKey, epcLimitKey + "/pod", "other.nri.io"}
	for i := 0; i < n; i++ {
		ann := vGenThreeForm(rng, keys)
		ctr := vPickCtr(rng, ann)
		res := map[string]bool{}
		last := ""
		for r := 0; r < 3; r++ {
			v, err := parseEpcLimit(ann, ctr)
			if err != nil {
				last = "ERR"
			} else {
				last = "=" + strconv.FormatUint(v, 10)
			}
			res[last] = true
		}
		if len(res) != 1 {
			fmt.Fprintf(w, "ORDER sgx %s %s %s\n", epcLimitKey, ctr, vEncMap(ann))
		}
		fmt.Fprintf(w, "SGX %s %s %s => %s\n", epcLimitKey, ctr, vEncMap(ann), last)
	}
}
