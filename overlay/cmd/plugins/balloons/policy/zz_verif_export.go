//go:build verif

package balloons

// Read-only snapshot of the balloons policy for the verification harnesses (verif builds only).

import (
	"fmt"
	"sort"
	"strconv"
	"strings"

	policyapi "github.com/containers/nri-plugins/pkg/resmgr/policy"
	"github.com/containers/nri-plugins/pkg/utils/cpuset"
)

func verifSet(s cpuset.CPUSet) string {
	l := s.List()
	if len(l) == 0 {
		return "-"
	}
	p := make([]string, len(l))
	for i, x := range l {
		p[i] = strconv.Itoa(x)
	}
	return strings.Join(p, "+")
}

func VerifSnapshot(b policyapi.Backend) []string {
	p, ok := b.(*balloons)
	if !ok {
		return []string{"BS none"}
	}
	out := []string{fmt.Sprintf("BS allowed=%s reserved=%s free=%s", verifSet(p.allowed), verifSet(p.reserved), verifSet(p.freeCpus))}
	for _, bln := range p.balloons {
		ctrs := []string{}
		for podID, cids := range bln.PodIDs {
			for _, c := range cids {
				ctrs = append(ctrs, podID+"/"+c)
			}
		}
		sort.Strings(ctrs)
		cl := "-"
		if len(ctrs) > 0 {
			cl = strings.Join(ctrs, ",")
		}
		out = append(out, fmt.Sprintf("BB %s %d %s %s %s %d %d", strings.ReplaceAll(bln.Def.Name, " ", "_"), bln.Instance, verifSet(bln.Cpus), verifSet(bln.SharedIdleCpus), cl, bln.Def.MinCpus, bln.Def.MaxCpus))
	}
	return out
}
