//go:build verif

package balloons

// Read-only snapshot of the balloons policy for the verification harnesses (verif builds only).

import (
	"fmt"
	"sort"
	"strconv"
	"strings"

	cpucontrol "github.com/containers/nri-plugins/pkg/resmgr/control/cpu"
	libmem "github.com/containers/nri-plugins/pkg/resmgr/lib/memory"
	policyapi "github.com/containers/nri-plugins/pkg/resmgr/policy"
	"github.com/containers/nri-plugins/pkg/utils/cpuset"
)

func verifSet(s cpuset.CPUSet) string {
	l := s.List()
	if len(l) == 0 {
		return "-"
	}
	p := make([]string, len(l))
	for i, x := range l {
		p[i] = strconv.Itoa(x)
	}
	return strings.Join(p, "+")
}

func verifWord(s string) string {
	if s == "" {
		return "-"
	}
	return strings.ReplaceAll(s, " ", "_")
}

func verifB(b *bool) string {
	if b != nil && *b {
		return "T"
	}
	return "F"
}

// VerifSnapshot: BS = policy-wide sets, BD = a balloon type, BB = a balloon instance, BC = a member
// container, BK = a CPU class assignment, BL = a CPU tree node.
func VerifSnapshot(b policyapi.Backend) []string {
	p, ok := b.(*balloons)
	if !ok {
		return []string{"BS none"}
	}
	pin := "T"
	if p.bpoptions.PinCPU != nil && !*p.bpoptions.PinCPU {
		pin = "F"
	}
	out := []string{fmt.Sprintf("BS allowed=%s reserved=%s free=%s isolated=%s pincpu=%s idleclass=%s", verifSet(p.allowed), verifSet(p.reserved), verifSet(p.freeCpus),
		verifSet(p.options.System.Isolated()), pin, verifWord(p.bpoptions.IdleCpuClass))}
	for _, d := range p.bpoptions.BalloonDefs {
		out = append(out, fmt.Sprintf("BD %s %d %d %d %d %s %s %s", verifWord(d.Name), d.MinCpus, d.MaxCpus, d.MinBalloons, d.MaxBalloons,
			verifWord(string(d.ShareIdleCpusInSame)), verifB(d.HideHyperthreads), verifWord(d.CpuClass)))
	}
	for _, bln := range p.balloons {
		ctrs := bln.ContainerIDs()
		sort.Strings(ctrs)
		cl := "-"
		if len(ctrs) > 0 {
			cl = strings.Join(ctrs, ",")
		}
		out = append(out, fmt.Sprintf("BB %s %d %s %s %s %d %s", verifWord(bln.Def.Name), bln.Instance, verifSet(bln.Cpus), verifSet(bln.SharedIdleCpus), cl, p.requestedMilliCpus(bln),
			verifSet(cpuset.New(bln.Mems.Members()...))))
		for _, id := range ctrs {
			hide := "?"
			if c, ok := p.cch.LookupContainer(id); ok {
				hide = "F"
				if runWithoutHyperthreads(c, bln) {
					hide = "T"
				}
			}
			zone := "-"
			if z, ok := p.memAllocator.AssignedZone(id); ok {
				zone = strconv.FormatUint(uint64(z), 10)
			}
			pinMem := p.bpoptions.PinMemory == nil || *p.bpoptions.PinMemory
			if bln.Def.PinMemory != nil {
				pinMem = *bln.Def.PinMemory
			}
			pm := "F"
			if pinMem {
				pm = "T"
			}
			out = append(out, fmt.Sprintf("BC %s %s %d %s %s %s", id, verifWord(bln.Def.Name), bln.Instance, hide, zone, pm))
		}
	}
	// every request the memory allocator holds
	reqs := []string{}
	p.memAllocator.ForeachRequest(nil, func(r *libmem.Request) bool {
		reqs = append(reqs, r.ID())
		return true
	})
	sort.Strings(reqs)
	rl := "-"
	if len(reqs) > 0 {
		rl = strings.Join(reqs, ",")
	}
	out = append(out, "BM "+rl)
	{
		seen := map[libmem.NodeMask]bool{}
		zs := []string{}
		p.memAllocator.ForeachRequest(nil, func(r *libmem.Request) bool {
			z := r.Zone()
			if !seen[z] {
				seen[z] = true
				zs = append(zs, fmt.Sprintf("%d:%d", uint64(z), p.memAllocator.ZoneFree(z)))
			}
			return true
		})
		sort.Strings(zs)
		if len(zs) == 0 {
			zs = []string{"-"}
		}
		out = append(out, "BZ "+strings.Join(zs, ","))
	}
	as := cpucontrol.VerifAssignments(p.cch)
	classes := []string{}
	for k := range as {
		classes = append(classes, k)
	}
	sort.Strings(classes)
	for _, k := range classes {
		out = append(out, fmt.Sprintf("BK %s %s", verifWord(k), verifSet(cpuset.New(as[k]...))))
	}
	_ = p.cpuTree.DepthFirstWalk(func(t *cpuTreeNode) error {
		out = append(out, fmt.Sprintf("BL %s %s %s", verifWord(string(t.level)), verifWord(t.name), verifSet(t.cpus)))
		return nil
	})
	out = append(out, "BE")
	return out
}
