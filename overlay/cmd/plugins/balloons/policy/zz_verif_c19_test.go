//go:build verif

package balloons

// C19 harness (selection): the real chooseBalloonDef on real cache containers with generated
// ordered lists of balloon types, and the list surgery of fillBuiltinBalloonDefs.

import (
	"bufio"
	"encoding/hex"
	"fmt"
	"math/rand"
	"os"
	"path/filepath"
	"strconv"
	"strings"
	"testing"

	nri "github.com/containerd/nri/pkg/api"

	resmgr "github.com/containers/nri-plugins/pkg/apis/resmgr/v1alpha1"
	logger "github.com/containers/nri-plugins/pkg/log"
	"github.com/containers/nri-plugins/pkg/resmgr/cache"
)

func vHex(s string) string {
	if s == "" {
		return "-"
	}
	return hex.EncodeToString([]byte(s))
}

func TestVerifC19Choose(t *testing.T) {
	out := os.Getenv("VERIF_OUT")
	if out == "" {
		t.Skip("VERIF_OUT not set")
	}
	logger.SetLevel(logger.LevelFatal)
	f, err := os.Create(out)
	if err != nil {
		t.Fatal(err)
	}
	defer f.Close()
	w := bufio.NewWriterSize(f, 1<<20)
	defer w.Flush()
	seed, _ := strconv.ParseInt(os.Getenv("VERIF_SEED"), 10, 64)
	rng := rand.New(rand.NewSource(seed + 191))
	n := 1500
	if os.Getenv("VERIF_TIER") == "thorough" {
		n = 40000
	}
	nss := []string{"default", "kube-system", "prod", "monitoring", "reserved-ns"}
	nsPats := []string{"*", "kube-*", "prod", "mon*", "default", "[", "reserved-ns", "kube-system"}
	names := []string{"web", "db", "kube-proxy", "c0"}
	defNames := []string{"fast", "slow", "reserved", "default", "batch", "x"}
	exprPool := []resmgr.Expression{
		{Key: "name", Op: resmgr.Equals, Values: []string{"web"}},
		{Key: "name", Op: resmgr.Matches, Values: []string{"kube-*"}},
		{Key: "namespace", Op: resmgr.In, Values: []string{"prod", "monitoring"}},
		{Key: "labels/app", Op: resmgr.Exists},
		{Key: "pod/labels/tier", Op: resmgr.NotIn, Values: []string{"gold"}},
		{Key: ":,:namespace,name", Op: resmgr.MatchesAny, Values: []string{"prod:*", "*:db"}},
		{Key: "pod/qosclass", Op: resmgr.Equals, Values: []string{"BestEffort"}},
	}
	for i := 0; i < n; i++ {
		dir := t.TempDir()
		cch, err := cache.NewCache(cache.Options{CacheDir: dir})
		if err != nil {
			t.Fatal(err)
		}
		ns := nss[rng.Intn(len(nss))]
		name := names[rng.Intn(len(names))]
		ann := map[string]string{}
		annot := "-"
		if rng.Intn(4) == 0 {
			v := defNames[rng.Intn(len(defNames))]
			if rng.Intn(4) == 0 {
				v = "nosuchtype"
			}
			switch rng.Intn(3) {
			case 0:
				ann[balloonKey] = v
			case 1:
				ann[balloonKey+"/pod"] = v
			default:
				ann[balloonKey+"/container."+name] = v
			}
			annot = vHex(v)
			if v == "" {
				annot = "00"
			}
		}
		podLabels := map[string]string{}
		if rng.Intn(2) == 0 {
			podLabels["tier"] = []string{"gold", "silver"}[rng.Intn(2)]
		}
		cch.InsertPod(&nri.PodSandbox{Id: "p0", Uid: "u0", Name: "pod0", Namespace: ns, Labels: podLabels, Annotations: ann}, nil)
		ctrLabels := map[string]string{}
		if rng.Intn(2) == 0 {
			ctrLabels["app"] = "a"
		}
		ctr, err := cch.InsertContainer(&nri.Container{Id: "c0", PodSandboxId: "p0", Name: name, Labels: ctrLabels})
		if err != nil {
			t.Fatal(err)
		}
		// ordered list of balloon types
		nd := 1 + rng.Intn(5)
		perm := rng.Perm(len(defNames))
		defs := []*BalloonDef{}
		for j := 0; j < nd; j++ {
			d := &BalloonDef{Name: defNames[perm[j]]}
			for k := rng.Intn(3); k > 0; k-- {
				d.Namespaces = append(d.Namespaces, nsPats[rng.Intn(len(nsPats))])
			}
			for k := rng.Intn(3); k > 0; k-- {
				d.MatchExpressions = append(d.MatchExpressions, exprPool[rng.Intn(len(exprPool))])
			}
			defs = append(defs, d)
		}
		dflt := &BalloonDef{Name: "thedefault"}
		p := &balloons{bpoptions: &BalloonsOptions{BalloonDefs: defs}, defaultBalloonDef: dflt}
		res := "err"
		if d, err := p.chooseBalloonDef(ctr); err == nil {
			res = vHex(d.Name)
		}
		// encode defs: name|ns pats (with glob results)|expr results
		enc := []string{}
		for _, d := range defs {
			pats := []string{}
			for _, pat := range d.Namespaces {
				m, err := filepath.Match(pat, ns)
				pats = append(pats, vHex(pat)+"="+vb(err == nil && m))
			}
			exs := []string{}
			for _, e := range d.MatchExpressions {
				e := e
				exs = append(exs, vb(e.Evaluate(ctr)))
			}
			enc = append(enc, vHex(d.Name)+"|"+jn(pats)+"|"+jn(exs))
		}
		fmt.Fprintf(w, "B %s %s %s => %s\n", vHex(ns), annot, strings.Join(enc, ";"), res)
	}
	// fillBuiltinBalloonDefs: order of the resulting list
	for i := 0; i < 300; i++ {
		nd := rng.Intn(5)
		perm := rng.Perm(len(defNames))
		in := []string{}
		opts := &BalloonsOptions{}
		for j := 0; j < nd; j++ {
			opts.BalloonDefs = append(opts.BalloonDefs, &BalloonDef{Name: defNames[perm[j]], MinBalloons: 0})
			in = append(in, vHex(defNames[perm[j]]))
		}
		p := &balloons{}
		_, _, err := p.fillBuiltinBalloonDefs(opts)
		outNames := []string{}
		for _, d := range opts.BalloonDefs {
			outNames = append(outNames, vHex(d.Name))
		}
		r := "ok"
		if err != nil {
			r = "err"
		}
		fmt.Fprintf(w, "F %s => %s %s\n", jn(in), r, jn(outNames))
	}
}

func vb(b bool) string {
	if b {
		return "1"
	}
	return "0"
}

func jn(l []string) string {
	if len(l) == 0 {
		return "_"
	}
	return strings.Join(l, ",")
}
