//go:build verif

package main

// GENERATED from /verif/tools/templates/anngen.go.tmpl by tools/instantiate.sh - shared
// annotation-map generator and line encoding for the C18 harnesses.

import (
	"math/rand"
	"sort"
	"strings"
)

var vCtrNames = []string{"c", "cc", "c.c", "c-1", "c_1", "pod", "container.c", "1", "c.memory-qos.nri.io", "x"}

func vEnc(s string) string {
	if s == "" {
		return "~"
	}
	return s
}

func vEncMap(m map[string]string) string {
	if len(m) == 0 {
		return "-"
	}
	keys := make([]string, 0, len(m))
	for k := range m {
		keys = append(keys, k)
	}
	sort.Strings(keys)
	parts := []string{}
	for _, k := range keys {
		parts = append(parts, vEnc(k)+"="+vEnc(m[k]))
	}
	return strings.Join(parts, ",")
}

var vValues = []string{"", "0", "1", "42", "max", "true", "false", "gold", "silver", "99999999999999999999999", "x1", "18446744073709551615"}

// vGenThreeForm: annotations using the three forms of a few keys for a few containers.
func vGenThreeForm(rng *rand.Rand, keys []string) map[string]string {
	ann := map[string]string{}
	n := rng.Intn(7)
	// most entries concern one focus key and a few container names, so that competing forms coexist
	focus := keys[rng.Intn(len(keys))]
	names := []string{vCtrNames[rng.Intn(len(vCtrNames))], vCtrNames[rng.Intn(len(vCtrNames))], vCtrNames[rng.Intn(len(vCtrNames))]}
	for i := 0; i < n; i++ {
		key := focus
		if rng.Intn(4) == 0 {
			key = keys[rng.Intn(len(keys))]
		}
		val := vValues[rng.Intn(len(vValues))]
		switch rng.Intn(4) {
		case 0:
			ann[key] = val
		case 1:
			ann[key+"/pod"] = val
		default:
			ann[key+"/container."+names[rng.Intn(len(names))]] = val
		}
	}
	if rng.Intn(4) == 0 {
		ann["unrelated.io/thing"] = "1"
	}
	return ann
}

// vGenSuffixed: annotations for the suffix-classified plugins.
func vGenSuffixed(rng *rand.Rand, suffix string, prefixes []string) map[string]string {
	ann := map[string]string{}
	n := rng.Intn(8)
	names := []string{vCtrNames[rng.Intn(len(vCtrNames))], vCtrNames[rng.Intn(len(vCtrNames))]}
	focus := []string{prefixes[rng.Intn(len(prefixes))], prefixes[rng.Intn(len(prefixes))], "class"}
	for i := 0; i < n; i++ {
		p := focus[rng.Intn(len(focus))]
		if rng.Intn(5) == 0 {
			p = prefixes[rng.Intn(len(prefixes))]
		}
		val := vValues[rng.Intn(len(vValues))]
		switch rng.Intn(5) {
		case 0, 1:
			ann[p+suffix] = val
		case 2, 3:
			ann[p+suffix+"/"+names[rng.Intn(len(names))]] = val
		default:
			ann[p+".other.nri.io"] = val
		}
	}
	return ann
}

// vPickCtr picks the container to query: mostly one that some annotation names.
func vPickCtr(rng *rand.Rand, ann map[string]string) string {
	cands := []string{}
	for k := range ann {
		if i := strings.LastIndex(k, "/container."); i >= 0 {
			cands = append(cands, k[i+len("/container."):])
		} else if i := strings.LastIndex(k, "/"); i >= 0 && !strings.HasSuffix(k, "/pod") {
			cands = append(cands, k[i+1:])
		}
	}
	sort.Strings(cands)
	if len(cands) > 0 && rng.Intn(4) != 0 {
		return cands[rng.Intn(len(cands))]
	}
	return vCtrNames[rng.Intn(len(vCtrNames))]
}

// vPickKey picks the key to query: mostly the base key of some annotation present.
func vPickKey(rng *rand.Rand, ann map[string]string, keys []string) string {
	cands := []string{}
	for k := range ann {
		if i := strings.LastIndex(k, "/container."); i >= 0 {
			cands = append(cands, k[:i])
		} else if strings.HasSuffix(k, "/pod") {
			cands = append(cands, strings.TrimSuffix(k, "/pod"))
		} else {
			cands = append(cands, k)
		}
	}
	sort.Strings(cands)
	if len(cands) > 0 && rng.Intn(5) != 0 {
		return cands[rng.Intn(len(cands))]
	}
	return keys[rng.Intn(len(keys))]
}
