//go:build verif

package main

import (
	"bufio"
	"context"
	"fmt"
	"io"
	"math/rand"
	"os"
	"strconv"
	"strings"
	"testing"

	"github.com/containerd/nri/pkg/api"
	"github.com/sirupsen/logrus"
)

func vUnified(adj *api.ContainerAdjustment) map[string]string {
	if adj == nil || adj.Linux == nil || adj.Linux.Resources == nil {
		return nil
	}
	return adj.Linux.Resources.Unified
}

func TestVerifC18MemoryQos(t *testing.T) {
	out := os.Getenv("VERIF_OUT")
	if out == "" {
		t.Skip("VERIF_OUT not set")
	}
	f, err := os.Create(out)
	if err != nil {
		t.Fatal(err)
	}
	defer f.Close()
	w := bufio.NewWriterSize(f, 1<<20)
	defer w.Flush()
	log = logrus.New()
	log.SetOutput(io.Discard)
	seed, _ := strconv.ParseInt(os.Getenv("VERIF_SEED"), 10, 64)
	rng := rand.New(rand.NewSource(seed + 182))
	n := 5000
	if os.Getenv("VERIF_TIER") == "thorough" {
		n = 200000
	}
	prefixes := []string{"class", "memory.high", "memory.swap.max", "memory.low", "x", "x.memory-qos.nri.io", ""}
	p := &plugin{config: &pluginConfig{
		UnifiedAnnotations: []string{"memory.high", "memory.swap.max", "memory.low"},
		Classes:            []QoSClass{{Name: "gold", SwapLimitRatio: 0}, {Name: "silver", SwapLimitRatio: 0.5}, {Name: "max", SwapLimitRatio: 0.25}},
	}}
	for i := 0; i < n; i++ {
		ann := vGenSuffixed(rng, annotationSuffix, prefixes)
		ctrName := vPickCtr(rng, ann)
		pod := &api.PodSandbox{Name: "pod0", Namespace: "ns", Annotations: ann}
		limit := int64(1000 + rng.Intn(1000000))
		ctr := &api.Container{Name: ctrName, Linux: &api.LinuxContainer{Resources: &api.LinuxResources{Memory: &api.LinuxMemory{Limit: api.Int64(limit)}}}}
		// effectiveAnnotations, repeatedly (Go randomises map iteration order per loop)
		res := map[string]bool{}
		last := ""
		for r := 0; r < 4; r++ {
			last = vEncMap(effectiveAnnotations(pod, ctr))
			res[last] = true
		}
		if len(res) != 1 {
			fmt.Fprintf(w, "ORDER memory-qos %s %s %s\n", annotationSuffix, ctrName, vEncMap(ann))
		}
		fmt.Fprintf(w, "EF %s %s %s => %s\n", annotationSuffix, ctrName, vEncMap(ann), last)
		// what each class alone contributes (probe), then the real call
		cps := []string{}
		for _, c := range p.config.Classes {
			probe := &api.PodSandbox{Name: "pod0", Namespace: "ns", Annotations: map[string]string{"class" + annotationSuffix: c.Name}}
			adj, _, err := p.CreateContainer(context.Background(), probe, ctr)
			if err == nil {
				cps = append(cps, c.Name+":"+strings.ReplaceAll(vEncMap(vUnified(adj)), ",", ";"))
			}
		}
		res = map[string]bool{}
		for r := 0; r < 4; r++ {
			adj, _, err := p.CreateContainer(context.Background(), pod, ctr)
			if err != nil {
				last = "err"
			} else {
				last = "ok " + vEncMap(vUnified(adj))
			}
			res[last] = true
		}
		if len(res) != 1 {
			fmt.Fprintf(w, "ORDER memory-qos-create %s %s %s\n", annotationSuffix, ctrName, vEncMap(ann))
		}
		fmt.Fprintf(w, "QF %s %s %s %s %s => %s\n", annotationSuffix, ctrName, strings.Join(p.config.UnifiedAnnotations, ","), strings.Join(cps, "|"), vEncMap(ann), last)
	}
}
