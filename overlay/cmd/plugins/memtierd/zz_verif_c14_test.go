//go:build verif

package main

// C14 harness for this plugin: every handler, with and without configuration, on pods with
// arbitrary values for the annotations the plugin interprets and containers with absent optional
// sub-messages. Each call runs under recover().

import (
	"bufio"
	"context"
	"fmt"
	"io"
	"math/rand"
	"os"
	"runtime/debug"
	"strconv"
	"strings"
	"testing"

	"github.com/containerd/nri/pkg/api"
	"github.com/sirupsen/logrus"
)

func vC14Word(s string) string {
	return strings.Map(func(r rune) rune {
		if r == ' ' || r == '\n' || r == '\t' || r == '\r' {
			return '_'
		}
		return r
	}, s)
}

func vC14Call(w *bufio.Writer, ev string, fn func() error) {
	fmt.Fprintf(w, "E %s\n", ev)
	res := func() (res string) {
		defer func() {
			if r := recover(); r != nil {
				where := []string{}
				for _, l := range strings.Split(string(debug.Stack()), "\n") {
					l = strings.TrimSpace(l)
					if strings.Contains(l, "/repo/") && !strings.Contains(l, "zz_verif") {
						where = append(where, l[strings.Index(l, "/repo/")+6:])
						if len(where) == 3 {
							break
						}
					}
				}
				res = "panic " + vC14Word(fmt.Sprint(r)) + " at=" + vC14Word(strings.Join(where, ";"))
			}
		}()
		if err := fn(); err != nil {
			return "err " + vC14Word(err.Error())
		}
		return "ok"
	}()
	if len(res) > 400 {
		res = res[:400]
	}
	fmt.Fprintf(w, "R %s\n", res)
}

var vC14Vals = []string{"", "max", "0", "-1", "1", "4096", "18446744073709551615", "18446744073709551616", "1e9", "x", " 5", "5 ", "0x10", "gold", "silver", "tiered", "nosuch",
	"true", "{", "- a", "\x00", "9223372036854775807", "50%", "1G"}

func vC14Ctr(rng *rand.Rand, name string) *api.Container {
	c := &api.Container{Id: "c-" + name, Name: name, PodSandboxId: "p0",
		Linux: &api.LinuxContainer{CgroupsPath: "/kubepods/pod0/" + name, Resources: &api.LinuxResources{Memory: &api.LinuxMemory{Limit: api.Int64(int64(1 + rng.Intn(1<<30)))}}}}
	switch rng.Intn(8) {
	case 0:
		c.Linux = nil
	case 1:
		c.Linux.Resources = nil
	case 2:
		c.Linux.Resources.Memory = nil
	case 3:
		c.Linux.Resources.Memory.Limit = nil
	case 4:
		c.Linux.CgroupsPath = ""
	case 5:
		c.Linux.Resources.Memory.Limit = api.Int64(-1)
	}
	return c
}

func vC14Pod(rng *rand.Rand, ann map[string]string) *api.PodSandbox {
	p := &api.PodSandbox{Id: "p0", Name: "pod0", Namespace: "ns", Annotations: ann}
	if rng.Intn(10) == 0 {
		p.Annotations = nil
	}
	return p
}

func vC14Open(t *testing.T) (*bufio.Writer, func(), *rand.Rand, int) {
	out := os.Getenv("VERIF_OUT")
	if out == "" {
		t.Skip("VERIF_OUT not set")
	}
	f, err := os.Create(out)
	if err != nil {
		t.Fatal(err)
	}
	w := bufio.NewWriterSize(f, 1<<20)
	seed, _ := strconv.ParseInt(os.Getenv("VERIF_SEED"), 10, 64)
	n := 3000
	if os.Getenv("VERIF_TIER") == "thorough" {
		n = 100000
	}
	return w, func() { w.Flush(); f.Close() }, rand.New(rand.NewSource(seed + 1414)), n
}

var _ = io.Discard
var _ = logrus.New
var _ = context.Background

func TestVerifC14Memtierd(t *testing.T) {
	w, done, rng, n := vC14Open(t)
	defer done()
	log = logrus.New()
	log.SetOutput(io.Discard)
	fmt.Fprintf(w, "H 0 memtierd\n")
	opt.runDir = t.TempDir()
	prefixes := []string{"class", "memory.high", "memory.swap.max", "x", ""}
	tr, fa := true, false
	cfgs := []*pluginConfig{nil, {}, {Classes: []qosClass{{Name: "gold", AllowSwap: &tr}, {Name: "silver", AllowSwap: &fa}, {Name: "plain"}, {Name: "tiered", MemtierdConfig: "policy:\n  name: age\n"}}}}
	mk := func() *plugin { return &plugin{ctrMemtierdEnv: map[string]*memtierdEnv{}} }
	p := mk()
	for i := 0; i < n; i++ {
		ci := rng.Intn(len(cfgs))
		p.config = cfgs[ci]
		ann := vGenSuffixed(rng, annotationSuffix, prefixes)
		for k := range ann {
			if rng.Intn(2) == 0 {
				ann[k] = vC14Vals[rng.Intn(len(vC14Vals))]
			}
		}
		name := vPickCtr(rng, ann)
		pod, ctr := vC14Pod(rng, ann), vC14Ctr(rng, name)
		switch rng.Intn(4) {
		case 0, 1:
			vC14Call(w, fmt.Sprintf("create cfg%d linux=%v", ci, ctr.Linux != nil), func() error { _, _, err := p.CreateContainer(context.Background(), pod, ctr); return err })
		case 2:
			vC14Call(w, fmt.Sprintf("start cfg%d linux=%v", ci, ctr.Linux != nil), func() error { return p.StartContainer(context.Background(), pod, ctr) })
		case 3:
			vC14Call(w, fmt.Sprintf("stop cfg%d", ci), func() error { _, err := p.StopContainer(context.Background(), pod, ctr); return err })
		}
		if rng.Intn(50) == 0 {
			raw := []string{"", "classes: [", "classes:\n- name: a\n  allowswap: x", "classes: 5", "classes:\n- name: gold\n  allowswap: true\n", "\x00"}[rng.Intn(6)]
			vC14Call(w, "configure", func() error { _, err := p.Configure(context.Background(), raw, "runtime", "1"); return err })
		}
	}
	p.config = cfgs[2]
	vC14Call(w, "final-create", func() error {
		_, _, err := p.CreateContainer(context.Background(), &api.PodSandbox{Name: "p", Namespace: "ns", Annotations: map[string]string{"class" + annotationSuffix: "gold"}}, &api.Container{Name: "c"})
		return err
	})
}
