//go:build verif

package main

import (
	"bufio"
	"fmt"
	"io"
	"math/rand"
	"os"
	"strconv"
	"testing"

	"github.com/containerd/nri/pkg/api"
	"github.com/sirupsen/logrus"
)

func TestVerifC18Memtierd(t *testing.T) {
	out := os.Getenv("VERIF_OUT")
	if out == "" {
		t.Skip("VERIF_OUT not set")
	}
	f, err := os.Create(out)
	if err != nil {
		t.Fatal(err)
	}
	defer f.Close()
	w := bufio.NewWriterSize(f, 1<<20)
	defer w.Flush()
	log = logrus.New()
	log.SetOutput(io.Discard)
	seed, _ := strconv.ParseInt(os.Getenv("VERIF_SEED"), 10, 64)
	rng := rand.New(rand.NewSource(seed + 183))
	n := 5000
	if os.Getenv("VERIF_TIER") == "thorough" {
		n = 200000
	}
	prefixes := []string{"class", "memory.high", "memory.swap.max", "x", "x.memtierd.nri.io", ""}
	for i := 0; i < n; i++ {
		ann := vGenSuffixed(rng, annotationSuffix, prefixes)
		ctrName := vPickCtr(rng, ann)
		pod := &api.PodSandbox{Name: "pod0", Namespace: "ns", Annotations: ann}
		ctr := &api.Container{Name: ctrName}
		res := map[string]bool{}
		last := ""
		for r := 0; r < 4; r++ {
			last = vEncMap(effectiveAnnotations(pod, ctr))
			res[last] = true
		}
		if len(res) != 1 {
			fmt.Fprintf(w, "ORDER memtierd %s %s %s\n", annotationSuffix, ctrName, vEncMap(ann))
		}
		fmt.Fprintf(w, "EF %s %s %s => %s\n", annotationSuffix, ctrName, vEncMap(ann), last)
	}
}
