//go:build verif

package topologyaware

// Read-only snapshot of the policy's internal state for the verification harnesses. Exists
// only in `-tags verif -overlay` builds.

import (
	libmem "github.com/containers/nri-plugins/pkg/resmgr/lib/memory"
	"fmt"
	"sort"
	"strconv"
	"strings"

	policyapi "github.com/containers/nri-plugins/pkg/resmgr/policy"
	"github.com/containers/nri-plugins/pkg/utils/cpuset"
)

func verifSet(s cpuset.CPUSet) string {
	l := s.List()
	if len(l) == 0 {
		return "-"
	}
	p := make([]string, len(l))
	for i, x := range l {
		p[i] = strconv.Itoa(x)
	}
	return strings.Join(p, "+")
}

func verifPB(b *bool) string {
	if b == nil {
		return "-"
	}
	return strconv.FormatBool(*b)
}

// VerifSnapshot renders pools (free/total supplies, counters) and grants, one item per line.
func VerifSnapshot(b policyapi.Backend) []string {
	p, ok := b.(*policy)
	if !ok || p.root == nil {
		return []string{"PS none"}
	}
	// the options IN FORCE are the package-level `opt`/`defaultPrio` the allocation code consults (not p.cfg)
	out := []string{fmt.Sprintf("PS allowed=%s reserved=%s isolated=%s pincpu=%v pinmem=%v", verifSet(p.allowed), verifSet(p.reserved), verifSet(p.isolated), opt.PinCPU, opt.PinMemory),
		fmt.Sprintf("PO pincpu=%v;pinmem=%v;prefiso=%v;prefshared=%v;colocpods=%v;colocns=%v;reservedns=%s;defprio=%v;cfg-pincpu=%v;cfg-pinmem=%v",
			opt.PinCPU, opt.PinMemory, verifPB(opt.PreferIsolated), verifPB(opt.PreferShared), opt.ColocatePods, opt.ColocateNamespaces,
			strings.Join(opt.ReservedPoolNamespaces, "+"), defaultPrio, p.cfg.PinCPU, p.cfg.PinMemory)}
	for _, n := range p.pools {
		parent := "-"
		if !n.Parent().IsNil() {
			parent = strings.ReplaceAll(n.Parent().Name(), " ", "_")
		}
		s, f := n.GetSupply(), n.FreeSupply()
		out = append(out, fmt.Sprintf("PN %s %s %s %s %s %s %s %d %d %d %d", strings.ReplaceAll(n.Name(), " ", "_"), parent,
			verifSet(s.IsolatedCPUs()), verifSet(s.ReservedCPUs()), verifSet(s.SharableCPUs()),
			verifSet(f.IsolatedCPUs()), verifSet(f.SharableCPUs()), f.GrantedShared(), f.GrantedReserved(),
			n.GrantedSharedCPU(), n.GrantedReservedCPU()))
	}
	ids := []string{}
	for id := range p.allocations.grants {
		ids = append(ids, id)
	}
	sort.Strings(ids)
	for _, id := range ids {
		g := p.allocations.grants[id]
		zone, ok := p.memAllocator.AssignedZone(id)
		az := "-"
		if ok {
			az = strconv.FormatUint(uint64(zone), 10)
		}
		out = append(out, fmt.Sprintf("PG %s %s %s %s %s %d %d %d %s %d", id, strings.ReplaceAll(g.GetCPUNode().Name(), " ", "_"), g.CPUType().String(),
			verifSet(g.ExclusiveCPUs()), verifSet(g.IsolatedCPUs()), g.CPUPortion(), g.SharedPortion(), g.ReservedPortion(),
			az, uint64(g.GetMemoryZone())))
	}
	// memory allocator: free memory of every zone that has an allocation assigned to it
	out = append(out, verifZones(p.memAllocator))
	out = append(out, fmt.Sprintf("PM nodesWithMem=%d", uint64(p.memAllocator.Masks().NodesWithMem())))
	return out
}

// verifZones renders "PZ <zone mask>:<free bytes>,..." for the distinct assigned zones (ZoneFree counts the
// allocations confined to the zone against its capacity)
func verifZones(a *libmem.Allocator) string {
	seen := map[libmem.NodeMask]bool{}
	zs := []string{}
	a.ForeachRequest(nil, func(r *libmem.Request) bool {
		z := r.Zone()
		if !seen[z] {
			seen[z] = true
			zs = append(zs, fmt.Sprintf("%d:%d", uint64(z), a.ZoneFree(z)))
		}
		return true
	})
	sort.Strings(zs)
	if len(zs) == 0 {
		return "PZ -"
	}
	return "PZ " + strings.Join(zs, ",")
}
