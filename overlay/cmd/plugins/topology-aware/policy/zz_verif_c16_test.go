//go:build verif

package topologyaware

// C16 (pool tree) harness: the real policy Setup on generated machines and generated
// available/reserved configurations; the resulting pool tree is dumped pool by pool.

import (
	"bufio"
	"fmt"
	"math/rand"
	"os"
	"path/filepath"
	"sort"
	"strconv"
	"strings"
	"testing"

	policycfg "github.com/containers/nri-plugins/pkg/apis/config/v1alpha1/resmgr/policy"
	cfgapi "github.com/containers/nri-plugins/pkg/apis/config/v1alpha1/resmgr/policy/topologyaware"
	logger "github.com/containers/nri-plugins/pkg/log"
	"github.com/containers/nri-plugins/pkg/resmgr/cache"
	policyapi "github.com/containers/nri-plugins/pkg/resmgr/policy"
	system "github.com/containers/nri-plugins/pkg/sysfs"
	"github.com/containers/nri-plugins/pkg/utils/cpuset"
	"github.com/containers/nri-plugins/pkg/verifgen"
)

func vjc(s cpuset.CPUSet) string {
	l := s.List()
	if len(l) == 0 {
		return "-"
	}
	p := []string{}
	for _, x := range l {
		p = append(p, strconv.Itoa(x))
	}
	return strings.Join(p, "+")
}

func vji(l []int) string {
	if len(l) == 0 {
		return "-"
	}
	sort.Ints(l)
	p := []string{}
	for _, x := range l {
		p = append(p, strconv.Itoa(x))
	}
	return strings.Join(p, "+")
}

// vSetup discovers a rendered machine and sets up a real policy on a real cache.
func vSetup(t *testing.T, m *verifgen.Machine, cfg *cfgapi.Config) (*policy, system.System, cache.Cache, error) {
	dir := t.TempDir()
	root := filepath.Join(dir, "sys")
	if err := m.Render(root); err != nil {
		t.Fatal(err)
	}
	sys, err := system.DiscoverSystemAt(root, system.DiscoverCPUTopology, system.DiscoverMemTopology, system.DiscoverCache)
	if err != nil {
		return nil, nil, nil, fmt.Errorf("discover: %w", err)
	}
	cch, err := cache.NewCache(cache.Options{CacheDir: filepath.Join(dir, "cache")})
	if err != nil {
		t.Fatal(err)
	}
	p := New().(*policy)
	err = p.Setup(&policyapi.BackendOptions{Cache: cch, System: sys, Config: cfg, SendEvent: func(interface{}) error { return nil }})
	return p, sys, cch, err
}

func vGenConfig(rng *rand.Rand, m *verifgen.Machine) (*cfgapi.Config, string) {
	cfg := &cfgapi.Config{ReservedResources: cfgapi.Constraints{}, AvailableResources: cfgapi.Constraints{}}
	online := m.Online()
	avail := online
	desc := "avail=all"
	if rng.Intn(3) == 0 && len(online) > 2 {
		// a random subset of online CPUs (always keeps at least two)
		avail = nil
		for _, id := range online {
			if rng.Intn(4) != 0 {
				avail = append(avail, id)
			}
		}
		if len(avail) < 2 {
			avail = online
		}
		cfg.AvailableResources[cfgapi.CPU] = policycfg.Amount("cpuset:" + verifgen.ListFormat(avail))
		desc = "avail=" + verifgen.ListFormat(avail)
	}
	iso := map[int]bool{}
	for _, id := range m.Isolated() {
		iso[id] = true
	}
	var nonIso []int
	for _, id := range avail {
		if !iso[id] {
			nonIso = append(nonIso, id)
		}
	}
	switch rng.Intn(4) {
	case 0:
		cfg.ReservedResources[cfgapi.CPU] = "750m"
		desc += " reserved=750m"
	case 1:
		q := 1 + rng.Intn(3)
		cfg.ReservedResources[cfgapi.CPU] = policycfg.Amount(strconv.Itoa(q))
		desc += " reserved=" + strconv.Itoa(q)
	default:
		if len(nonIso) == 0 {
			cfg.ReservedResources[cfgapi.CPU] = "1"
			desc += " reserved=1"
		} else {
			k := 1 + rng.Intn(2)
			var r []int
			for j := 0; j < k; j++ {
				r = append(r, nonIso[rng.Intn(len(nonIso))])
			}
			cfg.ReservedResources[cfgapi.CPU] = policycfg.Amount("cpuset:" + verifgen.ListFormat(r))
			desc += " reserved=cpuset:" + verifgen.ListFormat(r)
		}
	}
	return cfg, strings.ReplaceAll(desc, " ", ";")
}

func vDumpPools(w *bufio.Writer, p *policy) {
	fmt.Fprintf(w, "P allowed=%s reserved=%s isolated=%s npools=%d\n", vjc(p.allowed), vjc(p.reserved), vjc(p.isolated), len(p.pools))
	for _, n := range p.pools {
		parent := "-"
		if !n.Parent().IsNil() {
			parent = strings.ReplaceAll(n.Parent().Name(), " ", "_")
		}
		s := n.GetSupply()
		fmt.Fprintf(w, "N %s %s %s %d %s %s %s %s %s %s\n", strings.ReplaceAll(n.Name(), " ", "_"), n.Kind(), parent, n.RootDistance(),
			vjc(s.IsolatedCPUs()), vjc(s.ReservedCPUs()), vjc(s.SharableCPUs()),
			vji(n.GetMemset(memoryDRAM).Members()), vji(n.GetMemset(memoryPMEM).Members()), vji(n.GetMemset(memoryHBM).Members()))
	}
}

func TestVerifC16Pools(t *testing.T) {
	out := os.Getenv("VERIF_OUT")
	if out == "" {
		t.Skip("VERIF_OUT not set")
	}
	logger.SetLevel(logger.LevelFatal)
	f, err := os.Create(out)
	if err != nil {
		t.Fatal(err)
	}
	defer f.Close()
	w := bufio.NewWriterSize(f, 1<<20)
	defer w.Flush()
	seed, _ := strconv.ParseInt(os.Getenv("VERIF_SEED"), 10, 64)
	rng := rand.New(rand.NewSource(seed + 161))
	n := 250
	if os.Getenv("VERIF_TIER") == "thorough" {
		n = 8000
	}
	for i := 0; i < n; i++ {
		m := verifgen.Gen(rng, verifgen.DefaultOpts())
		cfg, desc := vGenConfig(rng, m)
		fmt.Fprintf(w, "M %s\n", m.Line())
		fmt.Fprintf(w, "C %s\n", desc)
		p, _, _, err := vSetup(t, m, cfg)
		if err != nil {
			fmt.Fprintf(w, "E %s\n", strings.ReplaceAll(err.Error(), " ", "_"))
			continue
		}
		vDumpPools(w, p)
	}
}
