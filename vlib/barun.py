"""Shared balloons resource-manager history run (C02 and the balloons halves of C09, C13)."""
import os, re
from vlib import core


def hist_lines(path, h):
    out, on = [], False
    with open(path, errors="replace") as f:
        for l in f:
            if l.startswith("H "):
                on = l.split()[1] == str(h)
            if on and not l.startswith(("BL ", "BK ", "M ")):
                out.append(l.rstrip("\n")[:500])
    return out[:4000]


def run(res, prefix, restarts=False, cfgchanges=False):
    drv = core.build_driver(res)
    if not drv:
        return None
    out = os.path.join(core.WORK, f"ba_{res.pid}.txt")
    n = {"quick": "120", "thorough": "4000"}[res.tier]
    rc, log = core.go_test(res, "./pkg/resmgr/", "TestVerifBAHistories", out,
                           env_extra={"VERIF_HISTORIES": os.environ.get("VERIF_HISTORIES", n), "VERIF_RESTARTS": "1" if restarts else "0", "VERIF_CFGCHANGES": "1" if cfgchanges else "0"}, timeout=9000)
    if rc != 0 or not os.path.exists(out) or os.path.getsize(out) == 0:
        res.broken.append(("resmgr/balloons harness", log[-3000:]))
        return None
    summ, diffs = core.run_driver(res, drv, "ba", out)
    res.evaluations += summ.get("events", 0)
    res.traces += summ.get("hists", 0)
    res.nontrivial += summ.get("nontrivial", 0)
    res.extra["ba_summary"] = summ
    known = core.load_known()
    seen_known = {}
    for d in diffs:
        m = re.search(r"kind=(\w+) line=\d+ detail=(\S+)", d)
        kind, detail = m.group(1), m.group(2)
        cls = detail.split("_")[0]
        mh = re.search(r"hist=(\d+)", d)
        h = int(mh.group(1)) if mh else None
        if kind != "property":
            res.broken.append((f"balloons accounting correspondence ({kind})", d[:800]))
            continue
        if not cls.startswith(prefix):
            continue
        kf = [k for k in known["findings"] if k["property"] == res.pid and k.get("class") == cls]
        if kf:
            seen_known.setdefault(cls, []).append(h)
            continue
        if len(res.violations) < 5:
            res.violations.append((cls, {"driver_line": d[:800], "history": hist_lines(out, h) if h is not None else None,
                                         "format": "H=history header, E=event, R=reply (adjustment updates), V=cache view, BS=policy sets, BB=balloon (type instance cpus shared-idle members requested-mCPU), "
                                                   "BC=member container, BK=cpu class assignment, BD=balloon type (min/max cpus, min/max instances, share level, hide HT, class)"}))
    for cls, hs in seen_known.items():
        kf = [k for k in known["findings"] if k["property"] == res.pid and k.get("class") == cls][0]
        line = f"{cls} — {kf['summary']} (balloons: {len(hs)} history(ies) in this run, e.g. #{hs[0]})"
        if not any(x.startswith(cls + " ") for x in res.known):
            res.known.append(line)
    res.extra["disagreements_checked"] = res.extra.get("disagreements_checked", 0) + len(diffs)
    os.remove(out)
    return summ


RULE = ("seeded NRI request histories through the real resmgr handlers, cache and balloons policy on generated machines; configurations vary pinCPU/pinMemory, reserved "
        "namespaces, a dynamic type (namespaces, min/max CPUs, max instances) and a fixed type (min/max CPUs, min/max instances, groupBy), each with shareIdleCPUsInSame "
        "in {none, system, package, die, numa, core}, hideHyperthreads, preferNewBalloons, preferSpreadingPods, preferPerNamespaceBalloon, preferSpreadOnPhysicalCores, CPU classes, "
        "topology balancing; pods with balloon-type and hide-hyperthreads annotations. After every request: reply, cache view, policy snapshot (balloons with CPUs, shared idle CPUs, "
        "members, requests; CPU class assignments; CPU tree); the accounting model is replayed with the implementation's picks as oracles; all predicates are evaluated on the "
        "implementation's own state. non-trivial = requests after which a populated balloon holds more than one CPU")
