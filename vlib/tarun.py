"""Shared topology-aware resource-manager history run (C01, C03, C04, C05, C09, C12, C13)."""
import os, re
from vlib import core


def hist_lines(path, h):
    out, on = [], False
    with open(path) as f:
        for l in f:
            if l.startswith("H "):
                on = l.split()[1] == str(h)
            if on and not l.startswith(("PN ", "PS ", "PM ")):
                out.append(l.rstrip("\n")[:600])
    return out


def run(res, prefix, restarts=False, cfgchanges=False):
    drv = core.build_driver(res)
    if not drv:
        return None
    out = os.path.join(core.WORK, f"ta_{res.pid}.txt")
    n = {"quick": "120", "thorough": "4000"}[res.tier]
    rc, log = core.go_test(res, "./pkg/resmgr/", "TestVerifTAHistories", out,
                           env_extra={"VERIF_HISTORIES": os.environ.get("VERIF_HISTORIES", n), "VERIF_RESTARTS": "1" if restarts else "0", "VERIF_CFGCHANGES": "1" if cfgchanges else "0"}, timeout=9000)
    if rc != 0 or not os.path.exists(out) or os.path.getsize(out) == 0:
        res.broken.append(("resmgr/topology-aware harness", log[-3000:]))
        return None
    summ, diffs = core.run_driver(res, drv, "ta", out)
    res.evaluations += summ.get("events", 0)
    res.traces += summ.get("hists", 0)
    res.nontrivial += summ.get("nontrivial", 0)
    res.extra["ta_summary"] = summ
    known = core.load_known()
    seen_known = {}
    for d in diffs:
        m = re.search(r"kind=(\w+) line=\d+ detail=(\S+)", d)
        kind, detail = m.group(1), m.group(2)
        cls = detail.split("_")[0]
        mh = re.search(r"hist=(\d+)", d)
        h = int(mh.group(1)) if mh else None
        if kind != "property":
            res.broken.append((f"topology-aware accounting correspondence ({kind})", d[:800]))
            continue
        if not cls.startswith(prefix):
            continue
        kf = [k for k in known["findings"] if k["property"] == res.pid and k.get("class") == cls]
        if kf:
            seen_known.setdefault(cls, []).append(h)
            continue
        if len(res.violations) < 5:
            res.violations.append((cls, {"driver_line": d[:800], "history": hist_lines(out, h) if h is not None else None,
                                         "format": "H=history header, M=machine, E=event, R=reply (adjustment updates), V=cache view id:state:cpus|mems|shares|quota|period|memlimit|swap:pending, PG=grant"}))
    for cls, hs in seen_known.items():
        kf = [k for k in known["findings"] if k["property"] == res.pid and k.get("class") == cls][0]
        res.known.append(f"{cls} — {kf['summary']} ({len(hs)} history(ies) in this run, e.g. #{hs[0]})")
    res.extra["disagreements_checked"] = len(diffs)
    res.samples.append({"history": hist_lines(out, 0)[:25]})
    os.remove(out)
    return summ


RULE = ("seeded NRI request histories (RunPodSandbox/CreateContainer/StartContainer/UpdateContainer/StopContainer/RemoveContainer/Stop+RemovePodSandbox, "
        "Synchronize with the runtime's view, re-applied configuration) through the real resmgr handlers, real cache and real topology-aware policy on "
        "generated machines and configurations (pinCPU/pinMemory on/off, reserved cpuset or quantity, reserved namespaces); containers of every QoS class, "
        "requests around the 1000/2000 mCPU eligibility boundaries up to whole machines, kube-system/reserved namespaces, shared/isolated/reserved/"
        "preserve annotations, large memory limits. After every request: reply, cache view and policy snapshot (pools, counters, grants, allocator zones); "
        "the accounting model is replayed with the implementation's choices as oracles and compared; all predicates are evaluated on the implementation's "
        "own state. Every fourth history also contains removals without a preceding stop. non-trivial = requests after which some container holds exclusive CPUs")
