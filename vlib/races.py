"""Summarise Go race-detector reports: one class per pair of (innermost repo frame, NRI handler / entry) of the two accesses."""
import re


def parse(text):
    blocks = text.split("WARNING: DATA RACE")[1:]
    out = {}
    for b in blocks:
        b = b.split("==================")[0]
        sides = re.split(r"\n(?=Previous (?:read|write) at|Goroutine \d+ \()", b)
        acc = [s for s in sides if re.match(r"\s*(Read|Write|Previous read|Previous write) at", s.strip())][:2]
        descr = []
        for s in acc:
            kind = "write" if "rite at" in s.split("\n")[0] or s.strip().startswith("Write") else "read"
            frames = re.findall(r"\n\s+(\S+)\(\)\n\s+(/repo/\S+?):(\d+)", s)
            frames = [(f, p, l) for f, p, l in frames if "zz_verif" not in p]
            inner = next(((f.split("/")[-1], p.replace("/repo/", ""), l) for f, p, l in frames), ("?", "?", "0"))
            entry = next((f.split(".")[-1] for f, p, l in frames if "(*nriPlugin)." in f or "(*resmgr)." in f), None)
            if entry is None:
                entry = next((f.split(".")[-2] + "." + f.split(".")[-1] for f, p, l in reversed(frames)), "?")
            descr.append(f"{kind}:{inner[0]}@{inner[1]}:{inner[2]}<{entry}>")
        key = " || ".join(sorted(descr))
        out.setdefault(key, 0)
        out[key] += 1
    return out
