"""./check --setup : build everything from files on disk (offline)."""
import os, sys
from vlib import core


def run():
    res = core.Result("setup", "quick", 1)
    ok = core.regenerate(res)
    rc, out, dt = core.sh(["lake", "build"], cwd=core.LEAN, timeout=7200)
    print(f"lake build: rc={rc} {dt:.0f}s")
    if rc != 0:
        print(out[-4000:])
    # warm the Go build cache for every package that has an overlay harness
    pkgs = set()
    root = os.path.join(core.VERIF, "overlay")
    for d, _, files in os.walk(root):
        if any(f.endswith("_test.go") for f in files):
            pkgs.add("./" + os.path.relpath(d, root) + "/")
    ov = core.overlay_json()
    rc2 = 0
    if pkgs:
        cmd = ["go", "test", "-vet=off", "-tags", "verif", "-overlay", ov, "-count=1", "-run", "^$"] + sorted(pkgs)
        rc2, out, dt = core.sh(cmd, cwd=core.REPO, env=core.go_env(), timeout=7200)
        print(f"go harness warm-up: rc={rc2} {dt:.0f}s")
        if rc2 != 0:
            print(out[-4000:])
    # setup failing to build the proofs is reported by the checks themselves; setup only warms caches
    return 0 if rc == 0 else 1
