"""Shared libmem correspondence run (C04 capacity clause, C06, C07)."""
import os, re
from vlib import core


def extract_trace(path, tno):
    out, on = [], False
    with open(path) as f:
        for l in f:
            if l.startswith("T "):
                on = l.split()[1] == str(tno)
            if on and not l.startswith("W "):
                out.append(l.rstrip("\n")[:400])
    return out


def run(res, prefix, known_classes=()):
    """Runs the harness, the driver, and files issues whose class starts with `prefix`.
    Model disagreements always count (broken correspondence)."""
    drv = core.build_driver(res)
    if not drv:
        return None
    out = os.path.join(core.WORK, f"libmem_{res.pid}.txt")
    ntr = {"quick": "2500", "thorough": "120000"}[res.tier]
    rc, log = core.go_test(res, "./pkg/resmgr/lib/memory/", "TestVerifLibmem", out,
                           env_extra={"VERIF_TRACES": os.environ.get("VERIF_TRACES", ntr)}, timeout=6000)
    if not os.path.exists(out) or os.path.getsize(out) == 0:
        res.broken.append(("libmem harness", log[-3000:]))
        return None
    if rc != 0:
        res.note(f"libmem harness exited rc={rc} (hang/crash is reported through the trace)")
    summ, diffs = core.run_driver(res, drv, "libmem", out)
    res.evaluations += summ.get("ops", 0)
    res.traces += summ.get("traces", 0)
    res.nontrivial += summ.get("overcommit", 0) + summ.get("errops", 0) * 0
    res.extra["libmem_summary"] = summ
    known = core.load_known()
    seen_known = {}
    for d in diffs:
        m = re.search(r"kind=(\w+) line=\d+ detail=(\S+)(?: trace=(\d+))?", d)
        kind = m.group(1)
        cls = m.group(2)
        mt = re.search(r"trace=(\d+)", d)
        tno = int(mt.group(1)) if mt else None
        if kind != "property":
            res.broken.append((f"libmem correspondence ({kind})", d[:600]))
            # search: do the property predicates fail on this trace? (they are reported separately as property lines)
            continue
        if not cls.startswith(prefix) and not any(cls.startswith(p) for p in known_classes):
            continue
        kf = [k for k in known["findings"] if k["property"] == res.pid and k.get("class") == cls]
        if kf:
            seen_known.setdefault(cls, []).append(tno)
            continue
        if not cls.startswith(prefix):
            continue
        if len(res.violations) < 5:
            res.violations.append((cls, {"driver_line": d[:800], "trace": extract_trace(out, tno) if tno is not None else None,
                                         "how_to_replay": "lines are the harness protocol: T=world, O=operation => result, S=state"}))
    for cls, tnos in seen_known.items():
        kf = [k for k in known["findings"] if k["property"] == res.pid and k.get("class") == cls][0]
        res.known.append(f"{cls} — {kf['summary']} ({len(tnos)} instance(s) in this run, e.g. trace {tnos[0]})")
    res.extra["disagreements_checked"] = len(diffs)
    # samples
    res.samples.append({"trace": extract_trace(out, 0)[:12]})
    res.samples.append({"trace": extract_trace(out, 7)[:14]})
    os.remove(out)
    return summ
