"""Shared machinery for /verif/check: regenerate facts, build and audit Lean proofs,
build/run Go harnesses through -overlay, run the Lean driver, write evidence."""
import json, os, re, subprocess, sys, time, hashlib, shutil, glob

VERIF = os.path.dirname(os.path.dirname(os.path.abspath(__file__)))
REPO = os.environ.get("VERIF_REPO", "/repo")
LEAN = os.path.join(VERIF, "lean")
CACHE = os.path.join(VERIF, ".cache")
WORK = os.path.join(VERIF, ".work")
ALLOWED_AXIOMS = {"propext", "Classical.choice", "Quot.sound"}
BANNED = re.compile(r"sorry|\badmit\b|^axiom |native_decide|bv_decide|implemented_by|unsafe |maxHeartbeats 0", re.M)

TRUSTED_BASE = [
    "Lean 4.33.0 kernel; axioms allowed: propext, Classical.choice, Quot.sound (audited by #print axioms on every run); no native_decide/bv_decide/sorry",
    "statements in lean/Nri/Props/*.lean as renderings of the English property (DESIGN.md §6)",
    "tools/extract (go/ast fact extractor) and the overlay harness + Lean driver + this script",
    "model == code is shown by the correspondence run only on the cases it executed (exhaustive where stated)",
]


def go_env():
    env = dict(os.environ)
    env.update({
        "GOFLAGS": "-mod=mod", "GOPROXY": "off", "GOSUMDB": "off", "GOTOOLCHAIN": "local",
        "GOCACHE": os.path.join(CACHE, "go"), "CGO_ENABLED": env.get("CGO_ENABLED", "0"),
        "GOMAXPROCS": env.get("GOMAXPROCS", "16"),
    })
    return env


def sh(cmd, cwd=None, env=None, timeout=None, stdin=None):
    t0 = time.time()
    p = subprocess.run(cmd, cwd=cwd, env=env, timeout=timeout, stdin=stdin,
                       stdout=subprocess.PIPE, stderr=subprocess.STDOUT, text=True, errors="replace")
    return p.returncode, p.stdout, time.time() - t0


class Result:
    """Accumulates what a check run did; turned into evidence + exit status."""

    def __init__(self, pid, tier, seed):
        self.pid, self.tier, self.seed = pid, tier, seed
        self.t0 = time.time()
        self.obligations = []       # (name, ok, detail)
        self.evaluations = 0
        self.nontrivial = 0
        self.traces = 0
        self.samples = []
        self.extra = {}
        self.assumptions = []
        self.broken = []            # (what, detail)  proof/correspondence no longer checks
        self.violations = []        # (what, replay dict) concrete failing inputs
        self.known = []             # known-finding lines
        self.rule = ""
        self.exhaustive = False
        self.log = []

    def note(self, s):
        self.log.append(s)
        print(s, flush=True)

    def oblige(self, name, ok, detail=""):
        self.obligations.append((name, bool(ok), detail))
        if not ok:
            self.broken.append((name, detail))


def ensure_dirs():
    for d in (CACHE, WORK, os.path.join(VERIF, "evidence"), os.path.join(VERIF, "replays")):
        os.makedirs(d, exist_ok=True)


# ---------------------------------------------------------------- regenerated facts

def regenerate(res, only=None):
    """Run tools/extract over REPO -> lean/Nri/Gen/*.lean. Stale files are deleted first."""
    gen = os.path.join(LEAN, "Nri", "Gen")
    os.makedirs(gen, exist_ok=True)
    tool = os.path.join(WORK, "extract")
    src = os.path.join(VERIF, "tools", "extract")
    rc, out, _ = sh(["go", "build", "-o", tool, "."], cwd=src, env=go_env())
    if rc != 0:
        res.oblige("extractor-builds", False, out[-2000:])
        return False
    for f in glob.glob(os.path.join(gen, "*.lean")):
        os.remove(f)
    rc, out, _ = sh([tool, "-repo", REPO, "-out", gen], env=go_env())
    if rc != 0:
        res.oblige("extractor-recognises-source", False, out[-3000:])
        # leave placeholders so that unrelated modules still build
        return False
    res.extra["facts"] = out.strip().splitlines()[-40:]
    return True


# ---------------------------------------------------------------- Lean

def strip_comments(src):
    src = re.sub(r"/-.*?-/", "", src, flags=re.S)
    src = re.sub(r"--.*", "", src)
    return src


def lean_cone(mod):
    """Source files in the import cone of module `mod` inside the project."""
    seen, todo = set(), [mod]
    while todo:
        m = todo.pop()
        if m in seen:
            continue
        p = os.path.join(LEAN, *m.split(".")) + ".lean"
        if not os.path.exists(p):
            continue
        seen.add(m)
        for im in re.findall(r"^import\s+([\w.]+)", open(p).read(), flags=re.M):
            todo.append(im)
    return sorted(seen)


def lean_prove(res, pid, thorough=False):
    """Build Props.<pid>, audit axioms, grep banned constructs. Returns theorem list."""
    mod = f"Nri.Props.{pid}"
    rc, out, dt = sh(["lake", "build", mod], cwd=LEAN, timeout=3000)
    res.extra["lean_build_s"] = round(dt, 1)
    if rc != 0:
        errs = [l for l in out.splitlines() if "error" in l][:20]
        res.oblige(f"lake build {mod}", False, "\n".join(errs) or out[-2000:])
        return []
    res.oblige(f"lake build {mod}", True)
    # banned constructs in the cone
    bad = []
    cone = lean_cone(mod)
    for m in cone:
        p = os.path.join(LEAN, *m.split(".")) + ".lean"
        for hit in BANNED.finditer(strip_comments(open(p).read())):
            bad.append(f"{m}: {hit.group(0)}")
    res.oblige("no sorry/admit/axiom/native_decide/bv_decide in cone", not bad, "; ".join(bad))
    res.extra["lean_cone"] = cone
    # theorems of the Props file + axiom audit
    src = open(os.path.join(LEAN, "Nri", "Props", pid + ".lean")).read()
    ns = re.findall(r"^namespace\s+([\w.]+)", src, flags=re.M)
    names = []
    cur_ns = []
    for line in strip_comments(src).splitlines():
        m = re.match(r"^namespace\s+([\w.]+)", line)
        if m:
            cur_ns.append(m.group(1)); continue
        m = re.match(r"^end\s+([\w.]+)", line)
        if m and cur_ns and cur_ns[-1] == m.group(1):
            cur_ns.pop(); continue
        m = re.match(r"^(?:protected\s+|private\s+)?theorem\s+([\w.']+)", line)
        if m:
            names.append(".".join(cur_ns + [m.group(1)]))
    audit = os.path.join(WORK, f"Audit_{pid}.lean")
    with open(audit, "w") as f:
        f.write(f"import {mod}\n")
        for n in names:
            f.write(f"#print axioms {n}\n")
    rc, out, _ = sh(["lake", "env", "lean", audit], cwd=LEAN, timeout=1200)
    axioms = {}
    for m in re.finditer(r"'([^']+)' depends on axioms: \[([^\]]*)\]", out.replace("\n", " ")):
        axioms[m.group(1)] = [a.strip() for a in m.group(2).split(",") if a.strip()]
    for m in re.finditer(r"'([^']+)' does not depend on any axioms", out):
        axioms[m.group(1)] = []
    if rc != 0:
        res.oblige("axiom audit runs", False, out[-1500:])
    for n in names:
        if n not in axioms:
            res.oblige(f"theorem {n}", False, "not reported by #print axioms")
        else:
            extra = set(axioms[n]) - ALLOWED_AXIOMS
            res.oblige(f"theorem {n}", not extra, f"axioms {sorted(extra)}" if extra else "")
    res.extra["axioms_used"] = sorted({a for v in axioms.values() for a in v})
    if thorough:
        rc, out, dt = sh(["lake", "env", "leanchecker", mod], cwd=LEAN, timeout=3000)
        res.oblige(f"leanchecker {mod}", rc == 0, out[-800:] if rc else "")
    return names


def build_driver(res):
    rc, out, dt = sh(["lake", "build", "nridrv"], cwd=LEAN, timeout=3000)
    if rc != 0:
        res.oblige("driver builds", False, "\n".join([l for l in out.splitlines() if "error" in l][:20]))
        return None
    return os.path.join(LEAN, ".lake", "build", "bin", "nridrv")


def run_driver(res, drv, prop, infile, keep_diffs=50):
    """Pipe `infile` through `nridrv <prop>`; return (summary dict, diff lines)."""
    with open(infile, "rb") as f:
        p = subprocess.run([drv, prop], stdin=f, stdout=subprocess.PIPE, stderr=subprocess.STDOUT)
    out = p.stdout.decode(errors="replace").splitlines()
    diffs = [l for l in out if l.startswith("DIFF ")]
    summ = {}
    for l in out:
        if l.startswith("SUMMARY "):
            for kv in l.split()[1:]:
                if "=" in kv:
                    k, v = kv.split("=", 1)
                    try:
                        summ[k] = int(v)
                    except ValueError:
                        summ[k] = v
    if p.returncode != 0 or not summ:
        res.broken.append(("driver-run", f"rc={p.returncode} tail={out[-5:]}"))
    return summ, diffs


# ---------------------------------------------------------------- Go harness

def overlay_json():
    """Map every file under /verif/overlay/<rel> to REPO/<rel>."""
    root = os.path.join(VERIF, "overlay")
    repl = {}
    for d, _, files in os.walk(root):
        for fn in files:
            if fn.endswith(".go") or fn.endswith(".s"):
                src = os.path.join(d, fn)
                rel = os.path.relpath(src, root)
                repl[os.path.join(REPO, rel)] = src
    path = os.path.join(WORK, "overlay.json")
    with open(path, "w") as f:
        json.dump({"Replace": repl}, f, indent=1)
    return path


def go_test(res, pkg, run, out_path, env_extra=None, timeout=3000, race=False, extra_args=None):
    """Run one overlay-injected harness test in REPO package `pkg`."""
    ov = overlay_json()
    env = go_env()
    env["VERIF_OUT"] = out_path
    env["VERIF_SEED"] = str(res.seed)
    env["VERIF_TIER"] = res.tier
    env["VERIF_DIR"] = VERIF
    if env_extra:
        env.update(env_extra)
    if race:
        env["CGO_ENABLED"] = "1"
    if os.path.exists(out_path):
        os.remove(out_path)
    cmd = ["go", "test", "-vet=off", "-tags", "verif", "-overlay", ov, "-count=1",
           "-timeout", f"{timeout}s", "-run", f"^{run}$"]
    if race:
        cmd.append("-race")
    if extra_args:
        cmd += extra_args
    cmd.append(pkg)
    rc, out, dt = sh(cmd, cwd=REPO, env=env, timeout=timeout + 120)
    res.extra.setdefault("go_runs", []).append({"pkg": pkg, "run": run, "rc": rc, "s": round(dt, 1)})
    return rc, out


# ---------------------------------------------------------------- findings / verdict

def load_known():
    p = os.path.join(VERIF, "KNOWN_FINDINGS.json")
    if os.path.exists(p):
        return json.load(open(p))
    return {"findings": [], "fixed": []}


def finish(res, level="proof", checker_cmd=None):
    ensure_dirs()
    n_ob = len(res.obligations)
    n_ok = sum(1 for _, ok, _ in res.obligations if ok)
    cov = {
        "obligations": n_ob, "discharged": n_ok,
        "checker_cmd": checker_cmd or f"cd /verif/lean && lake build Nri.Props.{res.pid} && lake env lean .work/Audit_{res.pid}.lean",
        "trusted_base": TRUSTED_BASE + res.assumptions,
        "evaluations": res.evaluations,
        "distinct_nontrivial": res.nontrivial,
        "traces_validated_against_impl": res.traces,
        "disagreements_checked": res.extra.get("disagreements_checked", 0),
        "rule": res.rule,
        "samples": res.samples[:12] or ["(no sample recorded)"],
        "exhaustive": res.exhaustive,
        "obligation_list": [{"name": n, "ok": ok, **({"detail": d[:400]} if d else {})} for n, ok, d in res.obligations],
    }
    for k, v in res.extra.items():
        cov.setdefault(k, v)
    status = 0
    lines = []
    for what in res.known:
        lines.append(f"KNOWN-FINDING: property={res.pid} {what}")
    nviol = 0
    for i, (what, replay) in enumerate(res.violations):
        path = os.path.join(VERIF, "replays", f"{res.pid}-{res.seed}-{i}.json")
        with open(path, "w") as f:
            json.dump({"property": res.pid, "what": what, "replay": replay}, f, indent=1)
        lines.append(f"VIOLATION property={res.pid} replay={path}")
        nviol += 1
        status = 1
        if i >= 4:
            break
    if not res.violations and res.broken:
        path = os.path.join(VERIF, "replays", f"{res.pid}-{res.seed}-broken.json")
        with open(path, "w") as f:
            json.dump({"property": res.pid, "no_failing_input_found": True,
                       "broken": [{"what": w, "detail": d[:4000]} for w, d in res.broken]}, f, indent=1)
        lines.append(f"VIOLATION property={res.pid} replay={path} no-failing-input-found")
        nviol += 1
        status = 1
    ev = {
        "property_id": res.pid, "tier": res.tier, "seed": res.seed, "level": level,
        "coverage": cov, "assumptions": res.assumptions, "wall_s": round(time.time() - res.t0, 1),
        "violations": nviol,
    }
    with open(os.path.join(VERIF, "evidence", f"{res.pid}.json"), "w") as f:
        json.dump(ev, f, indent=1, default=str)
    for l in lines:
        print(l, flush=True)
    print(f"{res.pid}: obligations {n_ok}/{n_ob}, evaluations {res.evaluations}, nontrivial {res.nontrivial}, "
          f"violations {nviol}, {ev['wall_s']}s", flush=True)
    return status


def classify_diffs(res, diffs, what, sample_inputs=None):
    """Turn driver DIFF lines into violations (property predicate false on the implementation)
    or broken correspondence (model disagreement / assumption / protocol)."""
    prop = [d for d in diffs if "kind=property" in d]
    other = [d for d in diffs if "kind=property" not in d]
    res.extra["disagreements_checked"] = res.extra.get("disagreements_checked", 0) + len(diffs)
    for d in prop[:5]:
        res.violations.append((f"{what}: property predicate false on implementation values", {"driver_line": d}))
    if other:
        res.broken.append((f"{what}: model/implementation correspondence", "\n".join(other[:20])))
    return prop, other
